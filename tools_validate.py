#!/usr/bin/env python3
"""Validate MANIFEST.json and evidence/*.json against the schemas (needs python3-vt's jsonschema)."""
import json, sys, glob, jsonschema
ok = True
ms = json.load(open('/root/.vp/MANIFEST.schema.json'))
es = json.load(open('/root/.vp/EVIDENCE.schema.json'))
try:
    jsonschema.validate(json.load(open('/verif/MANIFEST.json')), ms); print('MANIFEST ok')
except Exception as e:
    ok = False; print('MANIFEST INVALID:', str(e)[:400])
for f in sorted(glob.glob('/verif/evidence/*.json')):
    try:
        jsonschema.validate(json.load(open(f)), es); print(f, 'ok')
    except Exception as e:
        ok = False; print(f, 'INVALID:', str(e)[:400])
sys.exit(0 if ok else 1)
