//go:build g_bits

package props

import (
	"fmt"
	"math/big"
	"strings"
	"sync"
	"testing"

	"github.com/consensys/gnark/frontend"
	"pgregory.net/rapid"

	"verifharness/ref"
	"verifharness/stats"
)

// C06 — bit-encoding gadgets: only the canonical representative, big-endian byte order.

type c06Case struct {
	Kind    string        `json:"kind"` // rmrc-e1 | rmrc-e2 | rmrc-tiny | trbe-e1 | trbe-e2 | trbe-tiny | fbbe-e1 | fbbe-e2
	P       *big.Int      `json:"p,omitempty"`
	N       int           `json:"n"`
	Digits  []*big.Int    `json:"digits,omitempty"` // rmrc: LSB-first raw digits; fbbe: the big-endian bit string as presented
	V       *big.Int      `json:"v,omitempty"`      // trbe: the variable's value
	OutOf   *big.Int      `json:"outOf,omitempty"`  // trbe: integer whose arrangement is presented as output (nil = V)
	FlipOut int           `json:"flipOut"`          // trbe: output bit to flip (-1 none); fbbe: delta added to the correct output
	Strat   *HintStrategy `json:"strat,omitempty"`
	Note    string        `json:"note,omitempty"`
}

var c06Primes = []int64{3, 5, 7, 11, 13, 17, 31, 37, 47, 61, 67, 127, 131, 251, 257, 509, 521, 65521, 65537}

// denote is the integer a big-endian bit string (LSB-first within bytes) denotes.
func denote(bitsBE []*big.Int) *big.Int {
	buf := make([]byte, len(bitsBE)/8)
	for i := range buf {
		for j := 0; j < 8; j++ {
			if bitsBE[8*i+j].Sign() != 0 {
				buf[i] |= 1 << uint(j)
			}
		}
	}
	return new(big.Int).SetBytes(buf)
}

var (
	c06mu       sync.Mutex
	c06compiled = map[string]*Compiled{}
	c06tiny     = map[string]*TinyCompiled{}
)

func c06Compile(key string, mk func() frontend.Circuit) (*Compiled, error) {
	c06mu.Lock()
	defer c06mu.Unlock()
	if c, okk := c06compiled[key]; okk {
		return c, nil
	}
	c, err := CompileBN254(mk())
	if err != nil {
		return nil, err
	}
	c06compiled[key] = c
	return c, nil
}

func c06CompileTiny(key string, mk func() frontend.Circuit) (*TinyCompiled, error) {
	c06mu.Lock()
	defer c06mu.Unlock()
	if c, okk := c06tiny[key]; okk {
		return c, nil
	}
	c, err := CompileTiny(mk())
	if err != nil {
		return nil, err
	}
	c06tiny[key] = c
	return c, nil
}

func allBoolean(d []*big.Int) bool {
	for _, x := range d {
		if !(x.Sign() == 0 || (x.IsUint64() && x.Uint64() == 1)) {
			return false
		}
	}
	return true
}

func weighted(d []*big.Int) *big.Int {
	s := new(big.Int)
	for i := len(d) - 1; i >= 0; i-- {
		s.Lsh(s, 1)
		s.Add(s, d[i])
	}
	return s
}

func runC06(c c06Case) Result {
	p := c.P
	if p == nil {
		p = ref.R
	}
	if c.Kind == "rmrc-tiny" || c.Kind == "trbe-tiny" {
		p = TinyP
	}
	class := fmt.Sprintf("%s/n=%d", c.Kind, c.N)
	if c.Note != "" {
		class += "/" + c.Note
	}
	switch c.Kind {
	case "rmrc-e1", "rmrc-e2", "rmrc-tiny":
		if c.N < p.BitLen() {
			return bad(class, "harness:precondition", "width below field bit length is outside the statement")
		}
		boolean := allBoolean(c.Digits)
		val := weighted(c.Digits)
		want := boolean && val.Cmp(p) < 0
		var got bool
		var detail string
		switch c.Kind {
		case "rmrc-e1":
			err := E1(&RmrcCircuit{In: vars(c.N)}, &RmrcCircuit{In: toVars(c.Digits)}, p)
			got, detail = err == nil, errStr(err)
		case "rmrc-e2":
			cc, err := c06Compile(fmt.Sprintf("rmrc/%d", c.N), func() frontend.Circuit { return &RmrcCircuit{In: vars(c.N)} })
			if err != nil {
				return bad(class, "harness:compile", "%v", err)
			}
			r := cc.Solve(&RmrcCircuit{In: toVars(c.Digits)}, nil)
			if r.Inconsist {
				return bad(class, "harness:solver-evaluator-disagree", "solver accepted but evaluator found an unsatisfied constraint")
			}
			got, detail = r.Accept, errStr(r.SolverErr)
		case "rmrc-tiny":
			cc, err := c06CompileTiny(fmt.Sprintf("rmrc/%d", c.N), func() frontend.Circuit { return &RmrcCircuit{In: vars(c.N)} })
			if err != nil {
				return bad(class, "harness:compile", "%v", err)
			}
			acc, err := cc.Solve(&RmrcCircuit{In: toVars(c.Digits)}, nil)
			got, detail = acc, errStr(err)
		}
		nontrivial := !boolean || val.Cmp(p) >= 0 || strings.HasPrefix(c.Note, "firstdiff")
		if got != want {
			kind := "canonical-rejected"
			if got {
				kind = "noncanonical-accepted"
				if !boolean {
					kind = "nonboolean-accepted"
				} else if val.Cmp(p) == 0 {
					kind = "modulus-accepted"
				}
			}
			return bad(class, "ReducedModRCheck:"+kind, "p=%s n=%d digits denote %s (boolean=%v): accepted=%v, want %v (%s)", p, c.N, val, boolean, got, want, detail)
		}
		return ok(class, nontrivial)

	case "trbe-e1", "trbe-e2", "trbe-tiny":
		outOf := c.OutOf
		if outOf == nil {
			outOf = c.V
		}
		out := arrange(outOf, c.N)
		if c.FlipOut >= 0 && c.FlipOut < len(out) {
			out[c.FlipOut] ^= 1
		}
		fits := c.V.BitLen() <= c.N
		outCanonical := fits && fmt.Sprint(out) == fmt.Sprint(arrange(c.V, c.N))
		assign := &TrbeCircuit{V: c.V, Out: intsToVars(out)}
		var got, nonstd bool
		var detail string
		switch c.Kind {
		case "trbe-e1":
			err := E1(&TrbeCircuit{Out: vars(c.N)}, assign, p)
			got, detail = err == nil, errStr(err)
		case "trbe-e2":
			cc, err := c06Compile(fmt.Sprintf("trbe/%d", c.N), func() frontend.Circuit { return &TrbeCircuit{Out: vars(c.N)} })
			if err != nil {
				return bad(class, "harness:compile", "%v", err)
			}
			r := cc.Solve(assign, c.Strat)
			if r.Inconsist {
				return bad(class, "harness:solver-evaluator-disagree", "solver accepted but evaluator found an unsatisfied constraint")
			}
			got, nonstd, detail = r.Accept, r.HintNonStd, errStr(r.SolverErr)
		case "trbe-tiny":
			cc, err := c06CompileTiny(fmt.Sprintf("trbe/%d", c.N), func() frontend.Circuit { return &TrbeCircuit{Out: vars(c.N)} })
			if err != nil {
				return bad(class, "harness:compile", "%v", err)
			}
			// determine whether the strategy deviates from the canonical digits
			honest := digitsOf(c.V, c.N)
			ans := make([]*big.Int, c.N)
			for i := range ans {
				ans[i] = new(big.Int)
			}
			c.Strat.nbits(p, []*big.Int{c.V}, ans)
			for i := range ans {
				if ans[i].Cmp(honest[i]) != 0 {
					nonstd = true
				}
			}
			acc, err := cc.Solve(assign, c.Strat)
			got, detail = acc, errStr(err)
		}
		// The only accepted answer is the canonical digit vector of V, with the canonical arrangement as output.
		want := fits && outCanonical && !nonstd
		nontrivial := !fits || nonstd || !outCanonical || strings.HasPrefix(c.Note, "firstdiff")
		if got != want {
			kind := "canonical-rejected"
			if got {
				switch {
				case !fits:
					kind = "oversized-accepted"
				case nonstd:
					kind = "alternative-decomposition-accepted"
				default:
					kind = "wrong-output-accepted"
				}
			}
			return bad(class, "ToReducedBigEndian:"+kind, "p=%s n=%d v=%s outOf=%s flip=%d strat=%s: accepted=%v, want %v (%s)", p, c.N, c.V, outOf, c.FlipOut, c.Strat, got, want, detail)
		}
		return ok(class, nontrivial)

	case "fbbe-e1", "fbbe-e2":
		val := new(big.Int).Mod(denote(c.Digits), p)
		out := new(big.Int).Add(val, big.NewInt(int64(c.FlipOut)))
		out.Mod(out, p)
		want := c.FlipOut == 0 || out.Cmp(val) == 0
		assign := &FbbeCircuit{In: toVars(c.Digits), Out: out}
		var got bool
		var detail string
		if c.Kind == "fbbe-e1" {
			err := E1(&FbbeCircuit{In: vars(c.N)}, assign, p)
			got, detail = err == nil, errStr(err)
		} else {
			cc, err := c06Compile(fmt.Sprintf("fbbe/%d", c.N), func() frontend.Circuit { return &FbbeCircuit{In: vars(c.N)} })
			if err != nil {
				return bad(class, "harness:compile", "%v", err)
			}
			r := cc.Solve(assign, nil)
			if r.Inconsist {
				return bad(class, "harness:solver-evaluator-disagree", "solver accepted but evaluator found an unsatisfied constraint")
			}
			got, detail = r.Accept, errStr(r.SolverErr)
		}
		if got != want {
			return bad(class, "FromBinaryBigEndian:value", "p=%s n=%d string denotes %s, presented output %s: accepted=%v, want %v (%s)", p, c.N, denote(c.Digits), out, got, want, detail)
		}
		return ok(class, c.FlipOut != 0 || denote(c.Digits).Cmp(p) >= 0)
	}
	return bad(class, "harness:unknown-kind", "unknown kind")
}

// ---------------------------------------------------------------------------
// exhaustive small-scope enumeration (test engine, many small prime fields)

func c06EnumCases(yield func(c06Case) bool) {
	nPrimes16 := EnvInt("PRIMES16", 6) // how many primes get the full 2^16 sweep
	nPrimesV := EnvInt("PRIMESV", 17)  // how many primes get the all-values sweep
	shard, nsh := Shard(), NShards()
	item := 0
	mine := func() bool { item++; return (item-1)%nsh == shard }
	// (i) ReducedModRCheck: all {0,1}^n
	n16 := 0
	for _, pi := range c06Primes {
		p := big.NewInt(pi)
		for _, n := range []int{8, 16} {
			if n < p.BitLen() {
				continue
			}
			if n == 16 {
				if n16 >= nPrimes16 {
					continue
				}
				n16++
			}
			if !mine() {
				continue
			}
			for x := int64(0); x < 1<<uint(n); x++ {
				if !yield(c06Case{Kind: "rmrc-e1", P: p, N: n, Digits: digitsOf(big.NewInt(x), n), FlipOut: -1}) {
					return
				}
			}
		}
	}
	// (ii) ToReducedBigEndian: all v in [0,p), widths 8..32, correct output and one flipped output bit
	for k, pi := range c06Primes {
		if k >= nPrimesV {
			break
		}
		p := big.NewInt(pi)
		for _, n := range []int{8, 16, 24, 32} {
			if !mine() {
				continue
			}
			for v := int64(0); v < pi; v++ {
				if !yield(c06Case{Kind: "trbe-e1", P: p, N: n, V: big.NewInt(v), FlipOut: -1}) {
					return
				}
				if !yield(c06Case{Kind: "trbe-e1", P: p, N: n, V: big.NewInt(v), FlipOut: int(v) % n}) {
					return
				}
			}
		}
	}
	// (iii) FromBinaryBigEndian: all bit strings, correct output and output+1
	n16 = 0
	for _, pi := range c06Primes {
		p := big.NewInt(pi)
		for _, n := range []int{8, 16} {
			if n == 16 {
				if n16 >= nPrimes16 {
					continue
				}
				n16++
			}
			if !mine() {
				continue
			}
			for x := int64(0); x < 1<<uint(n); x++ {
				d := digitsOf(big.NewInt(x), n)
				if !yield(c06Case{Kind: "fbbe-e1", P: p, N: n, Digits: d, FlipOut: 0}) {
					return
				}
				if x%7 == 0 {
					if !yield(c06Case{Kind: "fbbe-e1", P: p, N: n, Digits: d, FlipOut: 1}) {
						return
					}
				}
			}
		}
	}
}

func init() {
	registerReplay("TestC06_Enum", runC06)
	registerReplay("TestC06_Tiny", runC06)
	registerReplay("TestC06_Positions", runC06)
	registerReplay("TestC06_Rapid", runC06)
}

// runEnumFast is RunEnum with enumeration-style counting (no per-case digest).
func runEnumFast(t *testing.T, col *stats.Collector, prop, test string, cases func(yield func(c06Case) bool)) {
	cases(func(c c06Case) bool {
		res := runC06(c)
		if res.Msg != "" {
			if msg := handle(col, prop, test, c, res); msg != "" {
				if !strings.HasPrefix(msg, "HARNESS-ERROR") {
					fmt.Printf("VIOLATION property=%s replay=%s\n", prop, replayPath(prop, test))
				}
				t.Errorf("%s", msg)
				return false
			}
			return true
		}
		col.CountEnumerated(res.Class, res.NonTrivial, func() any { return c })
		return true
	})
}

func TestC06_Enum(t *testing.T) {
	col := stats.New("C06", "TestC06_Enum")
	defer col.Flush()
	col.SetExhaustive(true)
	runEnumFast(t, col, "C06", "TestC06_Enum", c06EnumCases)
}

// ---------------------------------------------------------------------------
// compiled tinyfield (p = 47): every 8-bit answer for every value, and
// non-boolean digits, against the compiled constraints

func c06TinyCases(yield func(c06Case) bool) {
	n := 8
	for v := int64(0); v < 47; v++ {
		for x := int64(0); x < 256; x++ {
			st := &HintStrategy{NB: "other", Other: big.NewInt(x)}
			if !yield(c06Case{Kind: "trbe-tiny", N: n, V: big.NewInt(v), OutOf: big.NewInt(x), FlipOut: -1, Strat: st, Note: "all-answers"}) {
				return
			}
		}
		// single non-boolean digits with the same weighted sum mod 47 where possible, and arbitrary ones
		for j := 0; j < n; j++ {
			for _, dv := range []int64{2, 46, 24} {
				d := digitsOf(big.NewInt(v), n)
				d[j] = big.NewInt(dv)
				st := &HintStrategy{NB: "digits", Digits: d}
				if !yield(c06Case{Kind: "trbe-tiny", N: n, V: big.NewInt(v), FlipOut: -1, Strat: st, Note: "nonboolean"}) {
					return
				}
			}
			if j+1 < n {
				st := &HintStrategy{NB: "digit2", J: j}
				if !yield(c06Case{Kind: "trbe-tiny", N: n, V: big.NewInt(v), FlipOut: -1, Strat: st, Note: "digit2"}) {
					return
				}
			}
		}
	}
	// raw digit vectors into the compiled ReducedModRCheck
	for x := int64(0); x < 256; x++ {
		if !yield(c06Case{Kind: "rmrc-tiny", N: n, Digits: digitsOf(big.NewInt(x), n), FlipOut: -1, Note: "all-boolean"}) {
			return
		}
		for j := 0; j < n; j++ {
			for _, dv := range []int64{2, 46, 3, 24} {
				d := digitsOf(big.NewInt(x), n)
				d[j] = big.NewInt(dv)
				if !yield(c06Case{Kind: "rmrc-tiny", N: n, Digits: d, FlipOut: -1, Note: "nonboolean"}) {
					return
				}
			}
		}
	}
}

func TestC06_Tiny(t *testing.T) {
	col := stats.New("C06", "TestC06_Tiny")
	defer col.Flush()
	col.SetExhaustive(true)
	runEnumFast(t, col, "C06", "TestC06_Tiny", c06TinyCases)
}

// ---------------------------------------------------------------------------
// BN254, n = 256: every position of the first bit differing from the modulus

// firstDiff builds X agreeing with r above bit i, differing at i, with the given lower bits.
func firstDiff(i int, lower *big.Int) *big.Int {
	x := new(big.Int).Rsh(ref.R, uint(i+1))
	x.Lsh(x, 1)
	if ref.R.Bit(i) == 0 {
		x.Or(x, big.NewInt(1))
	}
	x.Lsh(x, uint(i))
	low := new(big.Int).And(lower, new(big.Int).Sub(ref.Pow2(i), big.NewInt(1)))
	return x.Or(x, low)
}

func c06PositionCases(lowers []*big.Int) func(yield func(c06Case) bool) {
	return func(yield func(c06Case) bool) {
		for i := 0; i < 256; i++ {
			for _, lo := range lowers {
				x := firstDiff(i, lo)
				dir := "below"
				if x.Cmp(ref.R) > 0 {
					dir = "above"
				}
				// raw digits into the compiled check
				if !yield(c06Case{Kind: "rmrc-e2", N: 256, Digits: digitsOf(x, 256), FlipOut: -1, Note: "firstdiff-" + dir}) {
					return
				}
				// through the decomposition: witness X mod r, prover answers bits(X), output arranged from X
				v := new(big.Int).Mod(x, ref.R)
				st := &HintStrategy{NB: "other", Other: x, N: 256}
				if !yield(c06Case{Kind: "trbe-e2", N: 256, V: v, OutOf: x, FlipOut: -1, Strat: st, Note: "firstdiff-" + dir}) {
					return
				}
			}
		}
		// equality with the modulus, and v + k*r for all fitting k
		if !yield(c06Case{Kind: "rmrc-e2", N: 256, Digits: digitsOf(ref.R, 256), FlipOut: -1, Note: "modulus"}) {
			return
		}
		for _, v := range []*big.Int{big.NewInt(0), big.NewInt(1), new(big.Int).Sub(ref.R, big.NewInt(1)), ref.Pow2(200)} {
			for k := 1; k <= 6; k++ {
				x := new(big.Int).Add(v, new(big.Int).Mul(ref.R, big.NewInt(int64(k))))
				if x.BitLen() > 256 {
					break
				}
				st := &HintStrategy{NB: "plus_kr", K: k, N: 256}
				if !yield(c06Case{Kind: "trbe-e2", N: 256, V: v, OutOf: x, FlipOut: -1, Strat: st, Note: "plus-kr"}) {
					return
				}
				if !yield(c06Case{Kind: "rmrc-e2", N: 256, Digits: digitsOf(x, 256), FlipOut: -1, Note: "plus-kr"}) {
					return
				}
			}
		}
	}
}

func TestC06_Positions(t *testing.T) {
	col := stats.New("C06", "TestC06_Positions")
	defer col.Flush()
	col.SetExhaustive(true)
	ones := new(big.Int).Sub(ref.Pow2(256), big.NewInt(1))
	alt, _ := new(big.Int).SetString("aaaaaaaaaaaaaaaaaaaaaaaaaaaaaaaaaaaaaaaaaaaaaaaaaaaaaaaaaaaaaaaa", 16)
	lowers := []*big.Int{big.NewInt(0), ones, alt, new(big.Int).Rsh(alt, 1)}
	if !Thorough() {
		lowers = lowers[:2]
	}
	col.Require("rmrc-e2/n=256/firstdiff-below", "rmrc-e2/n=256/firstdiff-above", "trbe-e2/n=256/firstdiff-below", "trbe-e2/n=256/firstdiff-above")
	runEnumFast(t, col, "C06", "TestC06_Positions", c06PositionCases(lowers))
}

// ---------------------------------------------------------------------------
// rapid: sampled widths, non-boolean digits, adversarial strategies on BN254

func genC06(t *rapid.T) c06Case {
	kind := pick(t, "kind", "rmrc24", "rmrc-nonbool", "rmrc-e2-pos", "rmrc-e2-nonbool", "trbe-e2-256", "trbe-e2-32", "trbe-e1-bn", "fbbe-e2", "fbbe-e1-24")
	switch kind {
	case "rmrc24":
		p := big.NewInt(pick(t, "p", c06Primes...))
		x := new(big.Int).SetBytes(genBytes(t, 3, "x"))
		if rapid.Bool().Draw(t, "near") {
			x = new(big.Int).Add(p, big.NewInt(int64(rapid.IntRange(-3, 3).Draw(t, "d"))))
			if x.Sign() < 0 {
				x.SetInt64(0)
			}
		}
		return c06Case{Kind: "rmrc-e1", P: p, N: 24, Digits: digitsOf(x, 24), FlipOut: -1, Note: "sampled"}
	case "rmrc-nonbool":
		p := big.NewInt(pick(t, "p", c06Primes...))
		n := pick(t, "n", 8, 16, 24)
		for n < p.BitLen() {
			n += 8
		}
		x := genBelow(t, ref.Pow2(n), "x")
		d := digitsOf(x, n)
		j := rapid.IntRange(0, n-1).Draw(t, "j")
		d[j] = ref.Clone(pick(t, "dv", big.NewInt(2), new(big.Int).Sub(p, big.NewInt(1)), big.NewInt(3)))
		return c06Case{Kind: "rmrc-e1", P: p, N: n, Digits: d, FlipOut: -1, Note: "nonboolean"}
	case "rmrc-e2-pos":
		i := rapid.IntRange(0, 255).Draw(t, "pos")
		x := firstDiff(i, new(big.Int).SetBytes(genBytes(t, 32, "low")))
		dir := "below"
		if x.Cmp(ref.R) > 0 {
			dir = "above"
		}
		return c06Case{Kind: "rmrc-e2", N: 256, Digits: digitsOf(x, 256), FlipOut: -1, Note: "firstdiff-" + dir}
	case "rmrc-e2-nonbool":
		x := genBelow(t, ref.R, "x")
		d := digitsOf(x, 256)
		j := rapid.IntRange(0, 255).Draw(t, "j")
		d[j] = ref.Clone(pick(t, "dv", big.NewInt(2), new(big.Int).Sub(ref.R, big.NewInt(1)), genBelow(t, ref.R, "rnd")))
		return c06Case{Kind: "rmrc-e2", N: 256, Digits: d, FlipOut: -1, Note: "nonboolean"}
	case "trbe-e2-256":
		v := genField(t, "v")
		c := c06Case{Kind: "trbe-e2", N: 256, V: v, FlipOut: -1}
		switch pick(t, "strat", "honest", "honest-flipout", "plus_kr", "flip", "digit2", "other", "zero", "ones", "pos") {
		case "honest":
			c.Note = "honest"
		case "honest-flipout":
			c.FlipOut = rapid.IntRange(0, 255).Draw(t, "flip")
			c.Note = "honest-wrong-output"
		case "plus_kr":
			k := rapid.IntRange(1, 5).Draw(t, "k")
			x := new(big.Int).Add(v, new(big.Int).Mul(ref.R, big.NewInt(int64(k))))
			c.Strat = &HintStrategy{NB: "plus_kr", K: k}
			if x.BitLen() <= 256 {
				c.OutOf = x
			}
			c.Note = "plus-kr"
		case "flip":
			j := rapid.IntRange(0, 255).Draw(t, "j")
			c.Strat = &HintStrategy{NB: "flip", J: j}
			c.OutOf = new(big.Int).Xor(v, ref.Pow2(j))
			c.Note = "flip"
		case "digit2":
			c.Strat = &HintStrategy{NB: "digit2", J: rapid.IntRange(0, 254).Draw(t, "j")}
			c.Note = "digit2"
		case "other":
			o := genBelow(t, ref.Pow2(256), "other")
			c.Strat = &HintStrategy{NB: "other", Other: o}
			c.OutOf = o
			c.Note = "other"
		case "zero":
			c.Strat = &HintStrategy{NB: "zero"}
			c.OutOf = big.NewInt(0)
			c.Note = "zero"
		case "ones":
			c.Strat = &HintStrategy{NB: "ones"}
			c.OutOf = new(big.Int).Sub(ref.Pow2(256), big.NewInt(1))
			c.Note = "ones"
		case "pos":
			i := rapid.IntRange(0, 255).Draw(t, "pos")
			x := firstDiff(i, new(big.Int).SetBytes(genBytes(t, 32, "low")))
			c.V = new(big.Int).Mod(x, ref.R)
			c.Strat = &HintStrategy{NB: "other", Other: x}
			c.OutOf = x
			c.Note = "firstdiff-below"
			if x.Cmp(ref.R) > 0 {
				c.Note = "firstdiff-above"
			}
		}
		return c
	case "trbe-e2-32":
		var v *big.Int
		if rapid.Bool().Draw(t, "big") {
			v = genField(t, "v")
		} else {
			v = new(big.Int).SetUint64(uint64(genIndex32(t, "v32")))
		}
		if rapid.IntRange(0, 5).Draw(t, "edge") == 0 {
			v = ref.Clone(pick(t, "e", ref.Pow2(32), new(big.Int).Add(ref.Pow2(32), big.NewInt(1)), new(big.Int).Sub(ref.R, big.NewInt(1)), ref.Pow2(33)))
		}
		c := c06Case{Kind: "trbe-e2", N: 32, V: v, FlipOut: -1, Note: "n32"}
		switch pick(t, "strat", "honest", "digit2", "other-low", "ones", "flip") {
		case "digit2":
			c.Strat = &HintStrategy{NB: "digit2", J: rapid.IntRange(0, 30).Draw(t, "j")}
		case "other-low":
			lo := new(big.Int).And(v, new(big.Int).Sub(ref.Pow2(32), big.NewInt(1)))
			c.Strat = &HintStrategy{NB: "other", Other: lo}
			c.OutOf = lo
		case "ones":
			c.Strat = &HintStrategy{NB: "ones"}
			c.OutOf = new(big.Int).Sub(ref.Pow2(32), big.NewInt(1))
		case "flip":
			j := rapid.IntRange(0, 31).Draw(t, "j")
			c.Strat = &HintStrategy{NB: "flip", J: j}
		}
		if v.BitLen() > 32 {
			c.Note = "n32-oversized"
		}
		return c
	case "trbe-e1-bn":
		n := pick(t, "n", 32, 256)
		v := genField(t, "v")
		if n == 32 && rapid.Bool().Draw(t, "fit") {
			v = new(big.Int).SetUint64(uint64(genIndex32(t, "v32")))
		}
		c := c06Case{Kind: "trbe-e1", N: n, V: v, FlipOut: -1, Note: "bn254"}
		if rapid.IntRange(0, 3).Draw(t, "flipq") == 0 {
			c.FlipOut = rapid.IntRange(0, n-1).Draw(t, "flip")
		}
		return c
	case "fbbe-e2":
		var x *big.Int
		switch rapid.IntRange(0, 3).Draw(t, "xk") {
		case 0:
			x = ref.Clone(ref.R)
		case 1:
			x = new(big.Int).Add(ref.R, genBelow(t, new(big.Int).Sub(ref.Pow2(256), ref.R), "over"))
		default:
			x = genBelow(t, ref.Pow2(256), "x")
		}
		// present x as a big-endian string: arrange() gives exactly that layout
		d := make([]*big.Int, 256)
		for i, b := range arrange(x, 256) {
			d[i] = big.NewInt(int64(b))
		}
		return c06Case{Kind: "fbbe-e2", N: 256, Digits: d, FlipOut: pick(t, "delta", 0, 0, 1, -1), Note: "bn254"}
	default: // fbbe-e1-24
		p := big.NewInt(pick(t, "p", c06Primes...))
		x := new(big.Int).SetBytes(genBytes(t, 3, "x"))
		d := make([]*big.Int, 24)
		for i, b := range arrange(x, 24) {
			d[i] = big.NewInt(int64(b))
		}
		return c06Case{Kind: "fbbe-e1", P: p, N: 24, Digits: d, FlipOut: pick(t, "delta", 0, 0, 1), Note: "sampled"}
	}
}

func TestC06_Rapid(t *testing.T) {
	RunRapid(t, Check[c06Case]{Prop: "C06", Test: "TestC06_Rapid", Gen: genC06, Run: runC06})
}
