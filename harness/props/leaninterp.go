package props

import (
	"fmt"
	"math/big"
	"regexp"
	"strconv"
	"strings"
)

// A small interpreter for the Lean circuit models that gnark-lean-extractor
// emits (the DSL of FormalVerification.lean). It evaluates a definition on
// concrete field elements under honest-prover semantics: every existential is
// resolved by the value its gate determines. This lets the harness run the
// MODEL on generated witnesses and compare its verdict with the compiled
// circuit and the reference relation (translation validation by generated
// inputs). Gate semantics follow ProvenZK's Gates definitions.

type lval struct {
	f *big.Int
	v []lval
}

type lexpr struct {
	kind  int // 0 const, 1 ref, 2 vec
	c     *big.Int
	name  string
	idx   []int
	elems []lexpr
}

const (
	sFunc = iota // ∃x, x = Gates.op args
	sRel         // ∃x, Gates.op args x
	sPred        // Gates.op args
	sCall        // Callee args fun x =>
	sVoid        // Callee args
	sRet         // k expr
	sTrue        // True
)

type lstmt struct {
	kind   int
	out    string
	op     string
	callee string
	args   []lexpr
}

type ldef struct {
	name   string
	params []string
	hasK   bool
	body   []lstmt
}

type leanModel struct {
	defs  map[string]*ldef
	order *big.Int
	// toBinary resolves the existential of Gates.to_binary; nil = canonical bits
	toBinary func(v *big.Int, d int) []*big.Int
	gates    int
}

var (
	leanDefHeader = regexp.MustCompile(`^def\s+([A-Za-z_][A-Za-z_0-9]*)\s*(.*?):\s*Prop\s*:=\s*$`)
	leanParam     = regexp.MustCompile(`\(([A-Za-z_][A-Za-z_0-9]*)\s*:`)
	leanOrder     = regexp.MustCompile(`def\s+Order\s*:\s*ℕ\s*:=\s*(0x[0-9a-fA-F]+|[0-9]+)`)
)

// parseLeanModel parses the extracted text.
func parseLeanModel(text string) (*leanModel, error) {
	m := &leanModel{defs: map[string]*ldef{}}
	if om := leanOrder.FindStringSubmatch(text); om != nil {
		m.order, _ = new(big.Int).SetString(om[1], 0)
	}
	if m.order == nil {
		return nil, fmt.Errorf("no field order in the model")
	}
	lines := strings.Split(text, "\n")
	var cur *ldef
	for ln, line := range lines {
		if strings.HasPrefix(line, "def ") {
			cur = nil
			hm := leanDefHeader.FindStringSubmatch(line)
			if hm == nil {
				continue // def Order : ℕ := ...
			}
			d := &ldef{name: hm[1]}
			for _, pm := range leanParam.FindAllStringSubmatch(hm[2], -1) {
				d.params = append(d.params, pm[1])
			}
			if n := len(d.params); n > 0 && d.params[n-1] == "k" {
				d.hasK = true
				d.params = d.params[:n-1]
			}
			m.defs[d.name] = d
			cur = d
			continue
		}
		if cur == nil {
			continue
		}
		t := strings.TrimSpace(line)
		if t == "" || strings.HasPrefix(t, "end ") {
			cur = nil
			continue
		}
		st, err := parseLeanStmt(t)
		if err != nil {
			return nil, fmt.Errorf("line %d (%s): %v", ln+1, cur.name, err)
		}
		cur.body = append(cur.body, st)
	}
	return m, nil
}

func parseLeanStmt(t string) (lstmt, error) {
	t = strings.TrimSuffix(strings.TrimSpace(t), "∧")
	t = strings.TrimSpace(t)
	switch {
	case t == "True":
		return lstmt{kind: sTrue}, nil
	case strings.HasPrefix(t, "k "):
		args, err := parseLeanArgs(t[2:])
		if err != nil || len(args) != 1 {
			return lstmt{}, fmt.Errorf("bad continuation call %q: %v", trunc(t), err)
		}
		return lstmt{kind: sRet, args: args}, nil
	case strings.HasPrefix(t, "∃"):
		rest := strings.TrimPrefix(t, "∃")
		i := strings.Index(rest, ",")
		if i < 0 {
			return lstmt{}, fmt.Errorf("bad binder %q", trunc(t))
		}
		name := strings.TrimSpace(rest[:i])
		body := strings.TrimSpace(rest[i+1:])
		if strings.HasPrefix(body, name+" = Gates.") {
			body = strings.TrimPrefix(body, name+" = Gates.")
			op, argstr := splitFirst(body)
			args, err := parseLeanArgs(argstr)
			if err != nil {
				return lstmt{}, err
			}
			return lstmt{kind: sFunc, out: name, op: op, args: args}, nil
		}
		if strings.HasPrefix(body, "Gates.") {
			op, argstr := splitFirst(strings.TrimPrefix(body, "Gates."))
			args, err := parseLeanArgs(argstr)
			if err != nil {
				return lstmt{}, err
			}
			if len(args) == 0 || args[len(args)-1].kind != 1 || args[len(args)-1].name != name {
				return lstmt{}, fmt.Errorf("relational gate does not end with its binder: %q", trunc(t))
			}
			return lstmt{kind: sRel, out: name, op: op, args: args[:len(args)-1]}, nil
		}
		return lstmt{}, fmt.Errorf("unsupported binder form %q", trunc(t))
	case strings.HasPrefix(t, "Gates."):
		op, argstr := splitFirst(strings.TrimPrefix(t, "Gates."))
		args, err := parseLeanArgs(argstr)
		if err != nil {
			return lstmt{}, err
		}
		return lstmt{kind: sPred, op: op, args: args}, nil
	}
	// gadget call
	callee, argstr := splitFirst(t)
	st := lstmt{kind: sVoid, callee: callee}
	if i := strings.LastIndex(argstr, " fun "); i >= 0 && strings.HasSuffix(argstr, "=>") {
		st.kind = sCall
		st.out = strings.TrimSpace(strings.TrimSuffix(argstr[i+5:], "=>"))
		argstr = argstr[:i]
	}
	args, err := parseLeanArgs(argstr)
	if err != nil {
		return lstmt{}, err
	}
	st.args = args
	return st, nil
}

func trunc(s string) string {
	if len(s) > 120 {
		return s[:120] + "..."
	}
	return s
}

func splitFirst(s string) (string, string) {
	s = strings.TrimSpace(s)
	if i := strings.IndexAny(s, " \t"); i >= 0 {
		return s[:i], strings.TrimSpace(s[i+1:])
	}
	return s, ""
}

// parseLeanArgs parses a space-separated list of expressions.
func parseLeanArgs(s string) ([]lexpr, error) {
	p := &leanParser{s: s}
	var out []lexpr
	for {
		p.skip()
		if p.i >= len(p.s) {
			return out, nil
		}
		e, err := p.expr()
		if err != nil {
			return nil, err
		}
		out = append(out, e)
	}
}

type leanParser struct {
	s string
	i int
}

func (p *leanParser) skip() {
	for p.i < len(p.s) && (p.s[p.i] == ' ' || p.s[p.i] == '\t') {
		p.i++
	}
}

func (p *leanParser) expr() (lexpr, error) {
	p.skip()
	if p.i >= len(p.s) {
		return lexpr{}, fmt.Errorf("unexpected end of expression")
	}
	switch {
	case strings.HasPrefix(p.s[p.i:], "vec!["):
		p.i += 5
		var elems []lexpr
		for {
			p.skip()
			if p.i < len(p.s) && p.s[p.i] == ']' {
				p.i++
				break
			}
			e, err := p.expr()
			if err != nil {
				return lexpr{}, err
			}
			elems = append(elems, e)
			p.skip()
			if p.i < len(p.s) && p.s[p.i] == ',' {
				p.i++
			}
		}
		return p.indexed(lexpr{kind: 2, elems: elems})
	case p.s[p.i] == '(':
		// (123:F) or (name : F)
		j := strings.IndexByte(p.s[p.i:], ')')
		if j < 0 {
			return lexpr{}, fmt.Errorf("unclosed parenthesis")
		}
		inner := p.s[p.i+1 : p.i+j]
		p.i += j + 1
		k := strings.Index(inner, ":")
		if k < 0 {
			return lexpr{}, fmt.Errorf("unsupported parenthesised expression %q", inner)
		}
		tok := strings.TrimSpace(inner[:k])
		if v, ok := new(big.Int).SetString(tok, 0); ok {
			return lexpr{kind: 0, c: v}, nil
		}
		return lexpr{kind: 1, name: tok}, nil
	case p.s[p.i] >= '0' && p.s[p.i] <= '9':
		j := p.i
		for j < len(p.s) && p.s[j] >= '0' && p.s[j] <= '9' {
			j++
		}
		v, _ := new(big.Int).SetString(p.s[p.i:j], 10)
		p.i = j
		return lexpr{kind: 0, c: v}, nil
	}
	j := p.i
	for j < len(p.s) && (p.s[j] == '_' || p.s[j] == '.' || (p.s[j] >= 'a' && p.s[j] <= 'z') || (p.s[j] >= 'A' && p.s[j] <= 'Z') || (p.s[j] >= '0' && p.s[j] <= '9')) {
		j++
	}
	if j == p.i {
		return lexpr{}, fmt.Errorf("unexpected character %q in %q", p.s[p.i], trunc(p.s[p.i:]))
	}
	e := lexpr{kind: 1, name: p.s[p.i:j]}
	p.i = j
	return p.indexed(e)
}

func (p *leanParser) indexed(e lexpr) (lexpr, error) {
	for p.i < len(p.s) && p.s[p.i] == '[' {
		j := strings.IndexByte(p.s[p.i:], ']')
		if j < 0 {
			return lexpr{}, fmt.Errorf("unclosed index")
		}
		n, err := strconv.Atoi(strings.TrimSpace(p.s[p.i+1 : p.i+j]))
		if err != nil {
			return lexpr{}, fmt.Errorf("non-literal index %q", p.s[p.i+1:p.i+j])
		}
		e.idx = append(e.idx, n)
		p.i += j + 1
	}
	return e, nil
}

type leanUnsat struct{ why string }

func (e *leanUnsat) Error() string { return "model unsatisfied: " + e.why }

func (m *leanModel) evalExpr(env map[string]lval, e lexpr) (lval, error) {
	var v lval
	switch e.kind {
	case 0:
		v = lval{f: new(big.Int).Mod(e.c, m.order)}
	case 1:
		x, okk := env[e.name]
		if !okk {
			return lval{}, fmt.Errorf("unbound identifier %s", e.name)
		}
		v = x
	case 2:
		v = lval{v: make([]lval, len(e.elems))}
		for i := range e.elems {
			x, err := m.evalExpr(env, e.elems[i])
			if err != nil {
				return lval{}, err
			}
			v.v[i] = x
		}
	}
	for _, i := range e.idx {
		if v.v == nil || i >= len(v.v) {
			return lval{}, fmt.Errorf("index %d out of range on %s", i, e.name)
		}
		v = v.v[i]
	}
	return v, nil
}

func (m *leanModel) isBool(x *big.Int) bool {
	return x.Sign() == 0 || (x.IsUint64() && x.Uint64() == 1)
}

func (m *leanModel) scalar(env map[string]lval, e lexpr) (*big.Int, error) {
	v, err := m.evalExpr(env, e)
	if err != nil {
		return nil, err
	}
	if v.f == nil {
		return nil, fmt.Errorf("vector where a field element is expected")
	}
	return v.f, nil
}

// gate evaluates one gate; out is nil for predicates.
func (m *leanModel) gate(env map[string]lval, op string, args []lexpr) (lval, error) {
	m.gates++
	p := m.order
	sc := func(i int) (*big.Int, error) {
		if i >= len(args) {
			return nil, fmt.Errorf("gate %s: too few arguments", op)
		}
		return m.scalar(env, args[i])
	}
	mod := func(x *big.Int) lval { return lval{f: x.Mod(x, p)} }
	switch op {
	case "add", "sub", "mul":
		a, err := sc(0)
		if err != nil {
			return lval{}, err
		}
		b, err := sc(1)
		if err != nil {
			return lval{}, err
		}
		switch op {
		case "add":
			return mod(new(big.Int).Add(a, b)), nil
		case "sub":
			return mod(new(big.Int).Sub(a, b)), nil
		}
		return mod(new(big.Int).Mul(a, b)), nil
	case "neg":
		a, err := sc(0)
		if err != nil {
			return lval{}, err
		}
		return mod(new(big.Int).Neg(a)), nil
	case "mul_acc":
		a, e1 := sc(0)
		b, e2 := sc(1)
		c, e3 := sc(2)
		if e1 != nil || e2 != nil || e3 != nil {
			return lval{}, fmt.Errorf("mul_acc arguments")
		}
		return mod(new(big.Int).Add(a, new(big.Int).Mul(b, c))), nil
	case "div", "div_unchecked", "inv":
		a, err := sc(0)
		if err != nil {
			return lval{}, err
		}
		den := a
		num := big.NewInt(1)
		if op != "inv" {
			b, err := sc(1)
			if err != nil {
				return lval{}, err
			}
			num, den = a, b
		}
		if den.Sign() == 0 {
			if op == "div_unchecked" && num.Sign() == 0 {
				return lval{f: big.NewInt(0)}, nil
			}
			return lval{}, &leanUnsat{op + " by zero"}
		}
		inv := new(big.Int).ModInverse(den, p)
		return mod(new(big.Int).Mul(num, inv)), nil
	case "xor", "or", "and":
		a, e1 := sc(0)
		b, e2 := sc(1)
		if e1 != nil || e2 != nil {
			return lval{}, fmt.Errorf("%s arguments", op)
		}
		if !m.isBool(a) || !m.isBool(b) {
			return lval{}, &leanUnsat{op + " on a non-boolean"}
		}
		x, y := a.Uint64(), b.Uint64()
		var r uint64
		switch op {
		case "xor":
			r = x ^ y
		case "or":
			r = x | y
		default:
			r = x & y
		}
		return lval{f: new(big.Int).SetUint64(r)}, nil
	case "select":
		b, e1 := sc(0)
		if e1 != nil {
			return lval{}, e1
		}
		if !m.isBool(b) {
			return lval{}, &leanUnsat{"select on a non-boolean"}
		}
		if b.Sign() != 0 {
			return m.evalExpr(env, args[1])
		}
		return m.evalExpr(env, args[2])
	case "lookup":
		b0, e1 := sc(0)
		b1, e2 := sc(1)
		if e1 != nil || e2 != nil {
			return lval{}, fmt.Errorf("lookup arguments")
		}
		if !m.isBool(b0) || !m.isBool(b1) {
			return lval{}, &leanUnsat{"lookup on a non-boolean"}
		}
		return m.evalExpr(env, args[2+int(b0.Uint64())+2*int(b1.Uint64())])
	case "is_zero":
		a, err := sc(0)
		if err != nil {
			return lval{}, err
		}
		if a.Sign() == 0 {
			return lval{f: big.NewInt(1)}, nil
		}
		return lval{f: big.NewInt(0)}, nil
	case "cmp":
		a, e1 := sc(0)
		b, e2 := sc(1)
		if e1 != nil || e2 != nil {
			return lval{}, fmt.Errorf("cmp arguments")
		}
		return mod(big.NewInt(int64(a.Cmp(b)))), nil
	case "eq", "ne", "le":
		a, e1 := sc(0)
		b, e2 := sc(1)
		if e1 != nil || e2 != nil {
			return lval{}, fmt.Errorf("%s arguments", op)
		}
		c := a.Cmp(b)
		if (op == "eq" && c != 0) || (op == "ne" && c == 0) || (op == "le" && c > 0) {
			return lval{}, &leanUnsat{fmt.Sprintf("%s %s %s", op, a, b)}
		}
		return lval{}, nil
	case "is_bool":
		a, err := sc(0)
		if err != nil {
			return lval{}, err
		}
		if !m.isBool(a) {
			return lval{}, &leanUnsat{"is_bool"}
		}
		return lval{}, nil
	case "from_binary":
		v, err := m.evalExpr(env, args[0])
		if err != nil {
			return lval{}, err
		}
		acc := new(big.Int)
		for i := len(v.v) - 1; i >= 0; i-- {
			if v.v[i].f == nil || !m.isBool(v.v[i].f) {
				return lval{}, &leanUnsat{"from_binary on a non-boolean"}
			}
			acc.Lsh(acc, 1)
			acc.Add(acc, v.v[i].f)
		}
		return mod(acc), nil
	case "to_binary":
		a, e1 := sc(0)
		dv, e2 := sc(1)
		if e1 != nil || e2 != nil {
			return lval{}, fmt.Errorf("to_binary arguments")
		}
		d := int(dv.Int64())
		var bits []*big.Int
		if m.toBinary != nil {
			bits = m.toBinary(a, d)
		}
		if bits == nil {
			if a.BitLen() > d {
				return lval{}, &leanUnsat{fmt.Sprintf("to_binary: %s needs more than %d bits", a, d)}
			}
			bits = make([]*big.Int, d)
			for i := range bits {
				bits[i] = big.NewInt(int64(a.Bit(i)))
			}
		}
		// the gate's own constraint: boolean digits recomposing to a (mod the order)
		acc := new(big.Int)
		out := lval{v: make([]lval, d)}
		for i := d - 1; i >= 0; i-- {
			if !m.isBool(bits[i]) {
				return lval{}, &leanUnsat{"to_binary: non-boolean digit"}
			}
			acc.Lsh(acc, 1)
			acc.Add(acc, bits[i])
			out.v[i] = lval{f: bits[i]}
		}
		if acc.Mod(acc, p).Cmp(a) != 0 {
			return lval{}, &leanUnsat{"to_binary: digits do not recompose"}
		}
		return out, nil
	}
	return lval{}, fmt.Errorf("unsupported gate %q", op)
}

// eval runs a definition on arguments; for gadgets it returns the value handed to the continuation.
func (m *leanModel) eval(name string, args []lval) (lval, error) {
	d, okk := m.defs[name]
	if !okk {
		return lval{}, fmt.Errorf("model has no definition %s", name)
	}
	if len(args) != len(d.params) {
		return lval{}, fmt.Errorf("%s takes %d arguments, got %d", name, len(d.params), len(args))
	}
	env := make(map[string]lval, len(d.params)+len(d.body))
	for i, p := range d.params {
		env[p] = args[i]
	}
	for _, st := range d.body {
		switch st.kind {
		case sTrue:
			return lval{}, nil
		case sRet:
			return m.evalExpr(env, st.args[0])
		case sFunc, sRel:
			v, err := m.gate(env, st.op, st.args)
			if err != nil {
				return lval{}, err
			}
			env[st.out] = v
		case sPred:
			if _, err := m.gate(env, st.op, st.args); err != nil {
				return lval{}, err
			}
		case sCall, sVoid:
			cargs := make([]lval, len(st.args))
			for i := range st.args {
				v, err := m.evalExpr(env, st.args[i])
				if err != nil {
					return lval{}, err
				}
				cargs[i] = v
			}
			v, err := m.eval(st.callee, cargs)
			if err != nil {
				return lval{}, err
			}
			if st.kind == sCall {
				env[st.out] = v
			}
		}
	}
	return lval{}, nil
}

// satisfied reports whether the named circuit definition holds on the arguments.
// A non-nil error other than *leanUnsat means the interpreter could not evaluate the model.
func (m *leanModel) satisfied(name string, args []lval) (bool, error) {
	_, err := m.eval(name, args)
	if err == nil {
		return true, nil
	}
	if _, unsat := err.(*leanUnsat); unsat {
		return false, nil
	}
	return false, err
}

func lscalar(v *big.Int) lval { return lval{f: new(big.Int).Set(v)} }

func lvector(vs []*big.Int) lval {
	o := lval{v: make([]lval, len(vs))}
	for i := range vs {
		o.v[i] = lscalar(vs[i])
	}
	return o
}

func lmatrix(vs [][]*big.Int) lval {
	o := lval{v: make([]lval, len(vs))}
	for i := range vs {
		o.v[i] = lvector(vs[i])
	}
	return o
}
