package props

import (
	"math/big"

	"github.com/consensys/gnark/frontend"

	"worldcoin/gnark-mbu/prover"

	"verifharness/ref"
)

// Helpers turning witness-level batches into circuits/assignments of the code
// under test, and computing the oracle's expectation.

func low32(v *big.Int) uint32 {
	return uint32(new(big.Int).And(v, big.NewInt(0xffffffff)).Uint64())
}

// insCanonicalHash is Keccak(R-pack) mod r for the witness values (the start
// index enters through its low 32 bits; callers must check Start < 2^32
// separately — no canonical hash exists otherwise).
func insCanonicalHash(w *ref.InsWitness) *big.Int {
	return ref.Mod(ref.HashInsertion(low32(w.Start), w.Pre, w.Post, w.Ids))
}

func delCanonicalHash(w *ref.DelWitness) *big.Int {
	idx := make([]uint32, len(w.Idx))
	for i := range idx {
		idx[i] = low32(w.Idx[i])
	}
	return ref.Mod(ref.HashDeletion(idx, w.Pre, w.Post))
}

func insFullCircuit(depth, batch int) *prover.InsertionMbuCircuit {
	return &prover.InsertionMbuCircuit{Depth: depth, BatchSize: batch, IdComms: vars(batch), MerkleProofs: vars2(batch, depth)}
}

func delFullCircuit(depth, batch int) *prover.DeletionMbuCircuit {
	return &prover.DeletionMbuCircuit{Depth: depth, BatchSize: batch, DeletionIndices: vars(batch), IdComms: vars(batch), MerkleProofs: vars2(batch, depth)}
}

func bigsToVars(v []*big.Int) []frontend.Variable {
	o := make([]frontend.Variable, len(v))
	for i := range v {
		o[i] = v[i]
	}
	return o
}

func bigs2ToVars(v [][]*big.Int) [][]frontend.Variable {
	o := make([][]frontend.Variable, len(v))
	for i := range v {
		o[i] = bigsToVars(v[i])
	}
	return o
}

func insFullAssign(w *ref.InsWitness, hash *big.Int) *prover.InsertionMbuCircuit {
	return &prover.InsertionMbuCircuit{
		InputHash: hash, StartIndex: w.Start, PreRoot: w.Pre, PostRoot: w.Post,
		IdComms: bigsToVars(w.Ids), MerkleProofs: bigs2ToVars(w.Paths), Depth: w.Depth, BatchSize: w.Batch,
	}
}

func delFullAssign(w *ref.DelWitness, hash *big.Int) *prover.DeletionMbuCircuit {
	return &prover.DeletionMbuCircuit{
		InputHash: hash, DeletionIndices: bigsToVars(w.Idx), PreRoot: w.Pre, PostRoot: w.Post,
		IdComms: bigsToVars(w.Ids), MerkleProofs: bigs2ToVars(w.Paths), Depth: w.Depth, BatchSize: w.Batch,
	}
}

var pow32 = ref.Pow2(32)

func vars(n int) []frontend.Variable { return make([]frontend.Variable, n) }

func vars2(n, m int) [][]frontend.Variable {
	o := make([][]frontend.Variable, n)
	for i := range o {
		o[i] = make([]frontend.Variable, m)
	}
	return o
}

// Gadget-level engines are optional: they live in files guarded by build tags
// (g_merkle, ...) that the driver drops when a refactoring changed the
// gadgets' Go API, so that the checks that only need the circuits' public
// API keep running. nil = not built in.
var (
	e1InsGadget func(w *ref.InsWitness, field *big.Int) error
	e1DelGadget func(w *ref.DelWitness, field *big.Int) error
)
