//go:build g_poseidon

package props

import (
	"github.com/consensys/gnark/frontend"
	"github.com/reilabs/gnark-lean-extractor/v2/abstractor"

	"worldcoin/gnark-mbu/prover/poseidon"
)

// Pos2Circuit / Pos1Circuit: single Poseidon calls.
type Pos2Circuit struct {
	A, B, Out frontend.Variable
}

func (c *Pos2Circuit) Define(api frontend.API) error {
	api.AssertIsEqual(abstractor.Call(api, poseidon.Poseidon2{In1: c.A, In2: c.B}), c.Out)
	return nil
}

type Pos1Circuit struct {
	A, Out frontend.Variable
}

func (c *Pos1Circuit) Define(api frontend.API) error {
	api.AssertIsEqual(abstractor.Call(api, poseidon.Poseidon1{In: c.A}), c.Out)
	return nil
}

// PosChainCircuit calls Poseidon2 and Poseidon1 several times in one Define,
// feeding outputs forward and re-using input variables (state-aliasing probe):
//
//	h0 = P2(A,B); h1 = P1(h0); h2 = P2(h1,A); h3 = P2(B,h2); h4 = P1(A); h5 = P2(h4,h3); again = P2(A,B); same = P2(A,A)
type PosChainCircuit struct {
	A, B frontend.Variable
	Out  [8]frontend.Variable
}

func (c *PosChainCircuit) Define(api frontend.API) error {
	h0 := abstractor.Call(api, poseidon.Poseidon2{In1: c.A, In2: c.B})
	h1 := abstractor.Call(api, poseidon.Poseidon1{In: h0})
	h2 := abstractor.Call(api, poseidon.Poseidon2{In1: h1, In2: c.A})
	h3 := abstractor.Call(api, poseidon.Poseidon2{In1: c.B, In2: h2})
	h4 := abstractor.Call(api, poseidon.Poseidon1{In: c.A})
	h5 := abstractor.Call(api, poseidon.Poseidon2{In1: h4, In2: h3})
	again := abstractor.Call(api, poseidon.Poseidon2{In1: c.A, In2: c.B})
	same := abstractor.Call(api, poseidon.Poseidon2{In1: c.A, In2: c.A}) // the same variable in both positions
	for i, h := range []frontend.Variable{h0, h1, h2, h3, h4, h5, again, same} {
		api.AssertIsEqual(h, c.Out[i])
	}
	return nil
}
