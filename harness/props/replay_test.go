package props

import (
	"encoding/json"
	"fmt"
	"os"
	"testing"

	gnarkLogger "github.com/consensys/gnark/logger"
	"github.com/rs/zerolog"

	"worldcoin/gnark-mbu/logging"
)

// TestReplay re-runs one saved failing case directly, bypassing rapid.
// Every check registers its case decoder in an init() function.
func TestReplay(t *testing.T) {
	path := os.Getenv("VERIF_REPLAY_FILE")
	if path == "" {
		t.Skip("no replay file")
	}
	raw, err := os.ReadFile(path)
	if err != nil {
		t.Fatalf("replay: %v", err)
	}
	var rf ReplayFile
	if err := json.Unmarshal(raw, &rf); err != nil {
		t.Fatalf("replay: %v", err)
	}
	fn, okk := replayers[rf.Test]
	if !okk {
		t.Fatalf("replay: test %s not registered", rf.Test)
	}
	res, err := fn(rf.Case)
	if err != nil {
		t.Fatalf("replay: %v", err)
	}
	if res.Msg != "" {
		fmt.Printf("VIOLATION property=%s replay=%s\n", rf.Property, path)
		t.Fatalf("replayed violation sig=%s: %s", res.Sig, res.Msg)
	}
	fmt.Printf("replay: case no longer violates %s\n", rf.Property)
}

// TestMain silences the code under test's info-level logging (it would
// otherwise dominate the check logs) unless VERIF_VERBOSE=1.
func TestMain(m *testing.M) {
	if os.Getenv("VERIF_VERBOSE") != "1" {
		l := logging.Logger()
		*l = l.Level(zerolog.WarnLevel)
		gnarkLogger.Disable()
	}
	os.Exit(m.Run())
}
