package props

import (
	"encoding/json"
	"fmt"
	"os"
	"testing"
)

// TestReplay re-runs one saved failing case directly, bypassing rapid.
// Every check registers its case decoder in an init() function.
func TestReplay(t *testing.T) {
	path := os.Getenv("VERIF_REPLAY_FILE")
	if path == "" {
		t.Skip("no replay file")
	}
	raw, err := os.ReadFile(path)
	if err != nil {
		t.Fatalf("replay: %v", err)
	}
	var rf ReplayFile
	if err := json.Unmarshal(raw, &rf); err != nil {
		t.Fatalf("replay: %v", err)
	}
	fn, okk := replayers[rf.Test]
	if !okk {
		t.Fatalf("replay: test %s not registered", rf.Test)
	}
	res, err := fn(rf.Case)
	if err != nil {
		t.Fatalf("replay: %v", err)
	}
	if res.Msg != "" {
		fmt.Printf("VIOLATION property=%s replay=%s\n", rf.Property, path)
		t.Fatalf("replayed violation sig=%s: %s", res.Sig, res.Msg)
	}
	fmt.Printf("replay: case no longer violates %s\n", rf.Property)
}
