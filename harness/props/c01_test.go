package props

import (
	"fmt"
	"math/big"
	"sync"
	"testing"

	"pgregory.net/rapid"

	"worldcoin/gnark-mbu/prover"

	"verifharness/ref"
)

// C01 — the insertion circuit accepts exactly valid appends of a batch into empty leaves.

type c01Case struct {
	Engine  string          `json:"engine"` // e1 | e2
	Class   string          `json:"class"`
	History int             `json:"historySteps"`
	W       *ref.InsWitness `json:"w"`
	Strat   *HintStrategy   `json:"strat,omitempty"`
}

var (
	insCompMu sync.Mutex
	insComp   = map[[2]int]*Compiled{}
)

// insCompiled returns the compiled insertion system of the code under test
// for (depth, batch), built through its own BuildR1CSInsertion.
func insCompiled(depth, batch int) (*Compiled, error) {
	insCompMu.Lock()
	defer insCompMu.Unlock()
	k := [2]int{depth, batch}
	if c, okk := insComp[k]; okk {
		return c, nil
	}
	ccs, err := prover.BuildR1CSInsertion(uint32(depth), uint32(batch))
	if err != nil {
		return nil, err
	}
	c, err := WrapR1CS(ccs)
	if err != nil {
		return nil, err
	}
	insComp[k] = c
	return c, nil
}

func e2DimsIns() [][2]int {
	d := [][2]int{{1, 1}, {3, 2}, {2, 3}}
	if Thorough() {
		d = append(d, [2]int{32, 2}, [2]int{10, 4}, [2]int{31, 1}, [2]int{5, 5})
	}
	return d
}

// genCircuitStrategy draws a prover strategy for the insertion/deletion circuits.
func genCircuitStrategy(t *rapid.T, depth int, values []*big.Int, deletion bool) *HintStrategy {
	s := &HintStrategy{}
	nChoices := []int{0, depth, 32, 256}
	if deletion {
		nChoices = []int{0, depth + 1, 32, 256}
	}
	s.N = pick(t, "st_n", nChoices...)
	switch rapid.IntRange(0, 9).Draw(t, "st_nb") {
	case 0, 1:
		s.NB = "honest"
	case 2:
		// an alternative decomposition v + k*r wherever it fits the requested width: 256-bit packings, a full-width
		// (254-bit) decomposition, or any width (then usually restricted to one value below)
		s.NB = "plus_kr"
		s.K = rapid.IntRange(1, 5).Draw(t, "st_k")
		s.N = pick(t, "st_krn", 256, 256, 254, 0)
		if s.N != 256 {
			s.K = 1
		}
	case 3:
		s.NB = "flip"
		s.J = rapid.IntRange(0, 33).Draw(t, "st_j")
	case 4:
		s.NB = "digit2"
		s.J = rapid.IntRange(0, 32).Draw(t, "st_j")
	case 5:
		s.NB = "other"
		if len(values) > 0 {
			v := values[rapid.IntRange(0, len(values)-1).Draw(t, "st_ov")]
			s.Other = addMod(v, pick(t, "st_od", int64(0), 1, -1))
		} else {
			s.Other = big.NewInt(1)
		}
	case 6:
		s.NB = "zero"
	case 7:
		s.NB = "ones"
	case 8:
		// alias: answer the bits of (value mod 2^n), as a prover would to smuggle a too-large index
		s.NB = "flip"
		s.J = depth
	default:
		s.NB = "honest"
	}
	if len(values) > 0 && rapid.IntRange(0, 2).Draw(t, "st_only") == 0 {
		s.OnlyValue = ref.Clone(values[rapid.IntRange(0, len(values)-1).Draw(t, "st_onlyv")])
	}
	if deletion {
		s.IZ = pick(t, "st_iz", "honest", "honest", "zero", "one", "invplus1", "value")
		if s.IZ == "value" {
			s.IZValue = genField(t, "st_izv")
		}
	}
	return s
}

func genC01(engine string) func(t *rapid.T) c01Case {
	return func(t *rapid.T) c01Case {
		var depth, batch int
		if engine == "e2" {
			d := pick(t, "dims", e2DimsIns()...)
			depth, batch = d[0], d[1]
		} else {
			depth = rapid.IntRange(1, 32).Draw(t, "depth")
			maxB := 6
			if Thorough() {
				maxB = 16
			}
			batch = rapid.IntRange(1, maxB).Draw(t, "batch")
		}
		h := genHistory(t, depth, 12)
		class, w := genInsertion(t, h, batch)
		if depth == 32 && rapid.IntRange(0, 5).Draw(t, "d32edge") == 0 {
			// depth 32: start = 2^32-1 with batch >= 2 runs off the tree
			w = forceInsertionBig(h.Tree.Clone(), new(big.Int).SetUint64(1<<32-1), w.Ids)
			class = "depth32-start=2^32-1"
		}
		c := c01Case{Engine: engine, Class: class, History: h.Steps, W: w}
		if engine == "e2" && rapid.IntRange(0, 9).Draw(t, "alias_attack") == 0 {
			// Coupled attack: the batch is valid for the leaves (index + r) mod 2^depth, and the prover answers every
			// index decomposition that is wide enough with the bits of index + r (256-bit packings are left alone,
			// the reduced check guards those). Sound circuits decompose indices at <= 32 bits, where index + r does not fit.
			shift := new(big.Int).Mod(ref.R, ref.Pow2(depth)).Uint64()
			if valid := genValidInsertion(t, h, batch); valid != nil && valid.Start.Uint64() >= shift {
				valid.Start = new(big.Int).SetUint64(valid.Start.Uint64() - shift)
				c.W, c.Class = valid, "alias-attack:index+r"
				c.Strat = &HintStrategy{NB: "plus_kr", K: 1, N: -256}
				for i := 0; i < batch; i++ { // only the round indices are aliased; any other value (e.g. a range check on start+batch) is answered honestly
					c.Strat.OnlyValues = append(c.Strat.OnlyValues, new(big.Int).Add(valid.Start, big.NewInt(int64(i))))
				}
				return c
			}
		}
		if engine == "e2" {
			vals := []*big.Int{w.Start}
			for i := 0; i < batch; i++ {
				vals = append(vals, new(big.Int).Mod(new(big.Int).Add(w.Start, big.NewInt(int64(i))), ref.R))
			}
			c.Strat = genCircuitStrategy(t, depth, vals, false)
		}
		return c
	}
}

func runC01(c c01Case) Result {
	w := c.W
	reason := ref.RIns(ref.R, ref.H2, w)
	relOK := reason == ""
	fullOK := relOK && w.Start.Cmp(pow32) < 0
	verdict := "valid"
	if !relOK {
		verdict = "invalid:" + reason
	} else if !fullOK {
		verdict = "invalid:start>=2^32"
	}
	class := fmt.Sprintf("%s/%s", c.Engine, verdict)
	tags := []string{"gen:" + c.Class, fmt.Sprintf("dims:%s:%dx%d", c.Engine, w.Depth, w.Batch)}
	nontrivial := !(relOK && c.History == 0 && w.Start.Sign() == 0)
	hash := insCanonicalHash(w)
	dims := fmt.Sprintf("depth=%d batch=%d", w.Depth, w.Batch)

	switch c.Engine {
	case "e1":
		if e1InsGadget != nil {
			errG := e1InsGadget(w, ref.R)
			if (errG == nil) != relOK {
				return bad(class, sigAccept("InsertionProof", errG == nil, reason, c.Class), "%s class=%s start=%s: gadget accepted=%v, relation says %q (%s)", dims, c.Class, w.Start, errG == nil, reason, errStr(errG))
			}
			tags = append(tags, "gadget-level-checked")
		}
		errF := E1(insFullCircuit(w.Depth, w.Batch), insFullAssign(w, hash), ref.R)
		if (errF == nil) != fullOK {
			return bad(class, sigAccept("InsertionMbuCircuit", errF == nil, verdict, c.Class), "%s class=%s start=%s: circuit accepted=%v, expected %v (%s) (%s)", dims, c.Class, w.Start, errF == nil, fullOK, verdict, errStr(errF))
		}
		return ok(class, nontrivial).tag(tags...)
	case "e2":
		cc, err := insCompiled(w.Depth, w.Batch)
		if err != nil {
			return bad(class, "harness:compile", "%v", err)
		}
		r := cc.Solve(insFullAssign(w, hash), c.Strat)
		if r.Inconsist {
			return bad(class, "harness:solver-evaluator-disagree", "solver accepted but evaluator found an unsatisfied constraint")
		}
		class += "/" + stratClass(c.Strat, r.HintNonStd)
		tags = append(tags, "strat:"+stratDetail(c.Strat, r.HintNonStd))
		if r.Accept && !fullOK {
			return bad(class, sigAccept("InsertionMbuCircuit(R1CS)", true, verdict, c.Class), "%s class=%s start=%s strat=%+v: compiled system accepted a batch the relation rejects (%s)", dims, c.Class, w.Start, c.Strat, verdict)
		}
		if !r.Accept && fullOK && !r.HintNonStd {
			return bad(class, sigAccept("InsertionMbuCircuit(R1CS)", false, verdict, c.Class), "%s class=%s start=%s: compiled system rejected a valid batch under the honest prover (%s)", dims, c.Class, w.Start, errStr(r.SolverErr))
		}
		if !r.HintNonStd {
			// differential: test engine vs compiled system under the honest prover
			errF := E1(insFullCircuit(w.Depth, w.Batch), insFullAssign(w, hash), ref.R)
			if (errF == nil) != r.Accept {
				return bad(class, "InsertionMbuCircuit:engines-disagree", "%s class=%s: test engine accepted=%v, compiled system accepted=%v", dims, c.Class, errF == nil, r.Accept)
			}
		}
		return ok(class, nontrivial).tag(tags...)
	}
	return bad(class, "harness:unknown-engine", "unknown engine")
}

func stratClass(s *HintStrategy, effective bool) string {
	if s.Honest() {
		return "honest"
	}
	if !effective {
		return "adversarial-noop"
	}
	return "adversarial"
}

func stratDetail(s *HintStrategy, effective bool) string {
	if s.Honest() {
		return "honest"
	}
	if !effective {
		return "noop"
	}
	return s.NB + "+" + s.IZ
}

func sigAccept(site string, accepted bool, why, class string) string {
	if accepted {
		return site + ":invalid-accepted:" + class
	}
	return site + ":valid-rejected:" + class
}

func init() {
	registerReplay("TestC01_E1", runC01)
	registerReplay("TestC01_E2", runC01)
}

func TestC01_E1(t *testing.T) {
	RunRapid(t, Check[c01Case]{Prop: "C01", Test: "TestC01_E1", Gen: genC01("e1"), Run: runC01})
}

func TestC01_E2(t *testing.T) {
	RunRapid(t, Check[c01Case]{Prop: "C01", Test: "TestC01_E2", Gen: genC01("e2"), Run: runC01})
}
