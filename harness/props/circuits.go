package props

import (
	"github.com/consensys/gnark/frontend"
	"github.com/reilabs/gnark-lean-extractor/v2/abstractor"

	"worldcoin/gnark-mbu/prover"
	"worldcoin/gnark-mbu/prover/keccak"
	"worldcoin/gnark-mbu/prover/poseidon"
)

// Harness wrapper circuits around the exported gadgets of the code under test.

// RmrcCircuit: ReducedModRCheck on a raw digit vector.
type RmrcCircuit struct {
	In []frontend.Variable
}

func (c *RmrcCircuit) Define(api frontend.API) error {
	abstractor.CallVoid(api, prover.ReducedModRCheck{Input: c.In})
	return nil
}

// TrbeCircuit: ToReducedBigEndian(V, len(Out)) must equal Out.
type TrbeCircuit struct {
	V   frontend.Variable
	Out []frontend.Variable
}

func (c *TrbeCircuit) Define(api frontend.API) error {
	bits := abstractor.Call1(api, prover.ToReducedBigEndian{Variable: c.V, Size: len(c.Out)})
	if len(bits) != len(c.Out) {
		api.AssertIsEqual(0, 1)
		return nil
	}
	for i := range bits {
		api.AssertIsEqual(bits[i], c.Out[i])
	}
	return nil
}

// FbbeCircuit: FromBinaryBigEndian(In) must equal Out.
type FbbeCircuit struct {
	In  []frontend.Variable
	Out frontend.Variable
}

func (c *FbbeCircuit) Define(api frontend.API) error {
	v := abstractor.Call(api, prover.FromBinaryBigEndian{Variable: c.In})
	api.AssertIsEqual(v, c.Out)
	return nil
}

// KeccakCircuit: Keccak-256 (Domain 1) or SHA3-256 (Domain 6) of In must equal Out.
type KeccakCircuit struct {
	In     []frontend.Variable
	Out    [256]frontend.Variable
	Domain int
}

func (c *KeccakCircuit) Define(api frontend.API) error {
	var h []frontend.Variable
	if c.Domain == 6 {
		h = keccak.NewSHA3_256(api, len(c.In), c.In...)
	} else {
		h = keccak.NewKeccak256(api, len(c.In), c.In...)
	}
	if len(h) != 256 {
		api.AssertIsEqual(0, 1)
		return nil
	}
	for i := 0; i < 256; i++ {
		api.AssertIsEqual(h[i], c.Out[i])
	}
	return nil
}

// Pos2Circuit / Pos1Circuit: single Poseidon calls.
type Pos2Circuit struct {
	A, B, Out frontend.Variable
}

func (c *Pos2Circuit) Define(api frontend.API) error {
	api.AssertIsEqual(abstractor.Call(api, poseidon.Poseidon2{In1: c.A, In2: c.B}), c.Out)
	return nil
}

type Pos1Circuit struct {
	A, Out frontend.Variable
}

func (c *Pos1Circuit) Define(api frontend.API) error {
	api.AssertIsEqual(abstractor.Call(api, poseidon.Poseidon1{In: c.A}), c.Out)
	return nil
}

// PosChainCircuit calls Poseidon2 and Poseidon1 several times in one Define,
// feeding outputs forward and re-using input variables (state-aliasing probe):
//
//	h0 = P2(A,B); h1 = P1(h0); h2 = P2(h1,A); h3 = P2(B,h2); h4 = P1(A); h5 = P2(h4,h3); again = P2(A,B)
type PosChainCircuit struct {
	A, B frontend.Variable
	Out  [7]frontend.Variable
}

func (c *PosChainCircuit) Define(api frontend.API) error {
	h0 := abstractor.Call(api, poseidon.Poseidon2{In1: c.A, In2: c.B})
	h1 := abstractor.Call(api, poseidon.Poseidon1{In: h0})
	h2 := abstractor.Call(api, poseidon.Poseidon2{In1: h1, In2: c.A})
	h3 := abstractor.Call(api, poseidon.Poseidon2{In1: c.B, In2: h2})
	h4 := abstractor.Call(api, poseidon.Poseidon1{In: c.A})
	h5 := abstractor.Call(api, poseidon.Poseidon2{In1: h4, In2: h3})
	again := abstractor.Call(api, poseidon.Poseidon2{In1: c.A, In2: c.B})
	for i, h := range []frontend.Variable{h0, h1, h2, h3, h4, h5, again} {
		api.AssertIsEqual(h, c.Out[i])
	}
	return nil
}

// InsGadgetCircuit: the InsertionProof gadget with the final root check, no hashing.
type InsGadgetCircuit struct {
	Start frontend.Variable
	Pre   frontend.Variable
	Post  frontend.Variable
	Ids   []frontend.Variable
	Paths [][]frontend.Variable

	Batch int
	Depth int
}

func (c *InsGadgetCircuit) Define(api frontend.API) error {
	root := abstractor.Call(api, prover.InsertionProof{
		StartIndex: c.Start, PreRoot: c.Pre, IdComms: c.Ids, MerkleProofs: c.Paths, BatchSize: c.Batch, Depth: c.Depth,
	})
	api.AssertIsEqual(root, c.Post)
	return nil
}

// DelGadgetCircuit: the DeletionProof gadget with the final root check, no hashing.
type DelGadgetCircuit struct {
	Idx   []frontend.Variable
	Pre   frontend.Variable
	Post  frontend.Variable
	Ids   []frontend.Variable
	Paths [][]frontend.Variable

	Batch int
	Depth int
}

func (c *DelGadgetCircuit) Define(api frontend.API) error {
	root := abstractor.Call(api, prover.DeletionProof{
		DeletionIndices: c.Idx, PreRoot: c.Pre, IdComms: c.Ids, MerkleProofs: c.Paths, BatchSize: c.Batch, Depth: c.Depth,
	})
	api.AssertIsEqual(root, c.Post)
	return nil
}

func vars(n int) []frontend.Variable { return make([]frontend.Variable, n) }

func vars2(n, m int) [][]frontend.Variable {
	o := make([][]frontend.Variable, n)
	for i := range o {
		o[i] = make([]frontend.Variable, m)
	}
	return o
}
