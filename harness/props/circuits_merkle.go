//go:build g_merkle

package props

import (
	"math/big"

	"github.com/consensys/gnark/frontend"
	"github.com/reilabs/gnark-lean-extractor/v2/abstractor"

	"worldcoin/gnark-mbu/prover"

	"verifharness/ref"
)

// InsGadgetCircuit: the InsertionProof gadget with the final root check, no hashing.
type InsGadgetCircuit struct {
	Start frontend.Variable
	Pre   frontend.Variable
	Post  frontend.Variable
	Ids   []frontend.Variable
	Paths [][]frontend.Variable

	Batch int
	Depth int
}

func (c *InsGadgetCircuit) Define(api frontend.API) error {
	root := abstractor.Call(api, prover.InsertionProof{
		StartIndex: c.Start, PreRoot: c.Pre, IdComms: c.Ids, MerkleProofs: c.Paths, BatchSize: c.Batch, Depth: c.Depth,
	})
	api.AssertIsEqual(root, c.Post)
	return nil
}

// DelGadgetCircuit: the DeletionProof gadget with the final root check, no hashing.
type DelGadgetCircuit struct {
	Idx   []frontend.Variable
	Pre   frontend.Variable
	Post  frontend.Variable
	Ids   []frontend.Variable
	Paths [][]frontend.Variable

	Batch int
	Depth int
}

func (c *DelGadgetCircuit) Define(api frontend.API) error {
	root := abstractor.Call(api, prover.DeletionProof{
		DeletionIndices: c.Idx, PreRoot: c.Pre, IdComms: c.Ids, MerkleProofs: c.Paths, BatchSize: c.Batch, Depth: c.Depth,
	})
	api.AssertIsEqual(root, c.Post)
	return nil
}

func insGadgetCircuit(depth, batch int) *InsGadgetCircuit {
	return &InsGadgetCircuit{Depth: depth, Batch: batch, Ids: vars(batch), Paths: vars2(batch, depth)}
}

func insGadgetAssign(w *ref.InsWitness) *InsGadgetCircuit {
	return &InsGadgetCircuit{Start: w.Start, Pre: w.Pre, Post: w.Post, Ids: bigsToVars(w.Ids), Paths: bigs2ToVars(w.Paths), Depth: w.Depth, Batch: w.Batch}
}

func delGadgetCircuit(depth, batch int) *DelGadgetCircuit {
	return &DelGadgetCircuit{Depth: depth, Batch: batch, Idx: vars(batch), Ids: vars(batch), Paths: vars2(batch, depth)}
}

func delGadgetAssign(w *ref.DelWitness) *DelGadgetCircuit {
	return &DelGadgetCircuit{Idx: bigsToVars(w.Idx), Pre: w.Pre, Post: w.Post, Ids: bigsToVars(w.Ids), Paths: bigs2ToVars(w.Paths), Depth: w.Depth, Batch: w.Batch}
}

func init() {
	e1InsGadget = func(w *ref.InsWitness, field *big.Int) error {
		return E1(insGadgetCircuit(w.Depth, w.Batch), insGadgetAssign(w), field)
	}
	e1DelGadget = func(w *ref.DelWitness, field *big.Int) error {
		return E1(delGadgetCircuit(w.Depth, w.Batch), delGadgetAssign(w), field)
	}
}
