package props

import (
	"bufio"
	"encoding/json"
	"fmt"
	"io"
	"math/big"
	"net"
	"net/http"
	"os"
	"os/exec"
	"path/filepath"
	"sync"
	"syscall"
	"testing"
	"time"

	"pgregory.net/rapid"

	"worldcoin/gnark-mbu/prover"
	"worldcoin/gnark-mbu/server"

	"verifharness/ref"
	"verifharness/stats"
)

// C14 — shutdown is graceful: in-flight requests finish, listeners close, no deadlock.

type c14Cycle struct {
	InFlight int    `json:"inFlight"` // requests brought in flight before the stop (0..3)
	Delay    string `json:"delay"`    // none | yield | us | ms | mid-proof | after-completion
	DelayN   int    `json:"delayN"`   // microseconds / milliseconds for us / ms
	// SlowHoldMs > 0: one more request is in flight at the stop whose body is only half uploaded; the client
	// sends the rest this many milliseconds AFTER the stop was requested (a request at "early progress").
	SlowHoldMs int `json:"slowHoldMs,omitempty"`
	// ScrapeAcrossStop: a client keeps scraping /metrics (keep-alive connection) while the stop is requested and awaited.
	ScrapeAcrossStop bool `json:"scrapeAcrossStop,omitempty"`
}

type c14Case struct {
	Mode   string     `json:"mode"`
	Cycles []c14Cycle `json:"cycles"`
}

func genC14(t *rapid.T) c14Case {
	c := c14Case{Mode: "deletion"}
	n := rapid.IntRange(1, 6).Draw(t, "cycles")
	for i := 0; i < n; i++ {
		cy := c14Cycle{}
		switch rapid.IntRange(0, 9).Draw(t, "cy_kind") {
		case 0, 1, 2:
			cy.InFlight, cy.Delay = 0, pick(t, "d0", "none", "none", "yield", "us", "ms")
		case 3, 4, 5, 6:
			cy.InFlight, cy.Delay = rapid.IntRange(1, 3).Draw(t, "k"), pick(t, "d1", "none", "us", "ms", "mid-proof")
		default:
			cy.InFlight, cy.Delay = rapid.IntRange(1, 2).Draw(t, "k2"), "after-completion"
		}
		switch cy.Delay {
		case "us":
			cy.DelayN = rapid.IntRange(1, 500).Draw(t, "us")
		case "ms":
			cy.DelayN = rapid.IntRange(1, 50).Draw(t, "ms")
		}
		if cy.Delay != "after-completion" && rapid.IntRange(0, 4).Draw(t, "slow") == 0 {
			holds := []int{300, 2000, 7000, 7000}
			if Thorough() {
				holds = append(holds, 12000, 35000)
			}
			cy.SlowHoldMs = pick(t, "hold", holds...)
		}
		cy.ScrapeAcrossStop = rapid.IntRange(0, 3).Draw(t, "scrape_across") == 0
		c.Cycles = append(c.Cycles, cy)
	}
	return c
}

var (
	c14hist   *os.File
	c14histMu sync.Mutex
)

// histLog appends one step to the history file, so that a crash of the whole
// process (an unrecoverable panic in a server goroutine) leaves the history behind.
func histLog(v any) {
	c14histMu.Lock()
	defer c14histMu.Unlock()
	if c14hist == nil {
		dir := os.Getenv("VERIF_WORK")
		if dir == "" {
			return
		}
		f, err := os.OpenFile(filepath.Join(dir, fmt.Sprintf("history-%s-%d.jsonl", os.Getenv("VERIF_TESTNAME"), Shard())), os.O_CREATE|os.O_WRONLY|os.O_APPEND, 0o644)
		if err != nil {
			return
		}
		c14hist = f
	}
	raw, _ := json.Marshal(v)
	c14hist.Write(append(raw, '\n'))
}

type c14Addrs struct{ prover, metrics string }

var c14addr *c14Addrs

func bindsNow(addr string) error {
	l, err := net.Listen("tcp", addr)
	if err != nil {
		return err
	}
	return l.Close()
}

// c14RunCycle runs one start/stop cycle on the fixed address pair.
// slowUpload is a raw HTTP/1.1 client that sends the request line, headers and
// the first half of the body, and the rest on demand.
type slowUpload struct {
	conn net.Conn
	rest []byte
}

func startSlowUpload(addr string, r genReq) (*slowUpload, error) {
	body := r.bytes()
	conn, err := net.DialTimeout("tcp", addr, 5*time.Second)
	if err != nil {
		return nil, err
	}
	head := fmt.Sprintf("POST /prove HTTP/1.1\r\nHost: %s\r\nContent-Type: application/json\r\nContent-Length: %d\r\nConnection: close\r\n\r\n", addr, len(body))
	if _, err := conn.Write(append([]byte(head), body[:len(body)/2]...)); err != nil {
		conn.Close()
		return nil, err
	}
	return &slowUpload{conn: conn, rest: body[len(body)/2:]}, nil
}

func (s *slowUpload) finish(timeout time.Duration) httpResult {
	t0 := time.Now()
	br := bufio.NewReader(s.conn)
	// A server may have answered already (a 408 for a slow upload, say) and closed: look before writing, because writing
	// to a closed peer draws a reset that can destroy the unread response - which WAS sent.
	s.conn.SetReadDeadline(time.Now().Add(30 * time.Millisecond))
	_, perr := br.Peek(1)
	s.conn.SetDeadline(time.Now().Add(timeout))
	var werr error
	if perr != nil {
		_, werr = s.conn.Write(s.rest)
	}
	resp, err := http.ReadResponse(br, nil)
	if err != nil {
		if werr != nil {
			return httpResult{Err: "writing the rest of the body: " + werr.Error(), Start: t0, End: time.Now()}
		}
		return httpResult{Err: "reading the response: " + err.Error(), Start: t0, End: time.Now()}
	}
	defer resp.Body.Close()
	b, err := io.ReadAll(resp.Body)
	res := httpResult{Status: resp.StatusCode, Body: b, Start: t0, End: time.Now(), Elapsed: time.Since(t0)}
	if err != nil {
		res.Err = "reading the body: " + err.Error()
	}
	return res
}

func (s *slowUpload) close() { s.conn.Close() }

func c14RunCycle(ps *prover.ProvingSystem, mode string, a *c14Addrs, cy c14Cycle, reqs []genReq, slowReq genReq) (string, string) {
	histLog(map[string]any{"step": "run", "cycle": cy})
	cfg := server.Config{ProverAddress: a.prover, MetricsAddress: a.metrics, Mode: mode}
	job := server.Run(&cfg, ps)
	ts := &testServer{job: job, ProverAddr: a.prover, MetricsAddr: a.metrics, Mode: mode, PS: ps}
	ts.client = newClient()
	defer ts.client.CloseIdleConnections()
	results := make([]httpResult, cy.InFlight)
	var wg sync.WaitGroup
	var slow *slowUpload
	expectInFlight := cy.InFlight
	if cy.SlowHoldMs > 0 {
		expectInFlight++
	}
	if expectInFlight > 0 {
		if err := ts.waitReady(20 * time.Second); err != nil {
			return "harness:not-ready", err.Error()
		}
		if cy.SlowHoldMs > 0 {
			var err error
			if slow, err = startSlowUpload(a.prover, slowReq); err != nil {
				return "harness:slow-upload", err.Error()
			}
			defer slow.close()
		}
		for i := 0; i < cy.InFlight; i++ {
			wg.Add(1)
			go func(i int) {
				defer wg.Done()
				results[i] = ts.do("POST", reqs[i].bytes())
			}(i)
		}
		if cy.Delay != "after-completion" {
			// confirm the requests are in flight: the gauge must read k
			deadline := time.Now().Add(20 * time.Second)
			for {
				sc := ts.scrape(5 * time.Second)
				if sc.HasGauge && int(sc.InFlight) >= expectInFlight {
					break
				}
				if time.Now().After(deadline) {
					wg.Wait()
					if slow != nil {
						slow.finish(30 * time.Second)
					}
					job.RequestStop()
					job.AwaitStop()
					return "", "" // could not confirm (requests finished too early): cycle does not count
				}
				time.Sleep(time.Millisecond)
			}
		}
	}
	switch cy.Delay {
	case "yield":
		time.Sleep(0)
	case "us":
		time.Sleep(time.Duration(cy.DelayN) * time.Microsecond)
	case "ms":
		time.Sleep(time.Duration(cy.DelayN) * time.Millisecond)
	case "mid-proof":
		time.Sleep(150 * time.Millisecond)
	case "after-completion":
		wg.Wait()
	}
	stopScrape := make(chan struct{})
	scrapeDone := make(chan struct{})
	if cy.ScrapeAcrossStop {
		if err := ts.waitReady(20 * time.Second); err != nil {
			return "harness:not-ready", err.Error()
		}
		go func() {
			defer close(scrapeDone)
			for {
				select {
				case <-stopScrape:
					return
				default:
				}
				ts.scrape(2 * time.Second) // errors after the stop are expected; it must just never wedge the shutdown
			}
		}()
		time.Sleep(2 * time.Millisecond)
	} else {
		close(scrapeDone)
	}
	defer func() { close(stopScrape); <-scrapeDone }()
	histLog(map[string]any{"step": "request-stop"})
	stopped := make(chan struct{})
	stopAt := time.Now()
	go func() {
		job.RequestStop()
		job.AwaitStop()
		close(stopped)
	}()
	var slowRes httpResult
	if slow != nil {
		// the accepted request completes its upload only after the hold; it must still be served in full
		time.Sleep(time.Duration(cy.SlowHoldMs)*time.Millisecond - time.Since(stopAt))
		select {
		case <-stopped:
			return "shutdown:await-returned-with-request-in-flight", fmt.Sprintf("AwaitStop returned %v after the stop although an accepted request (body half uploaded) was still in flight", time.Since(stopAt).Round(time.Millisecond))
		default:
		}
		slowRes = slow.finish(120 * time.Second)
	}
	select {
	case <-stopped:
	case <-time.After(90 * time.Second):
		wg.Wait() // all client responses (or errors) are in
		select {
		case <-stopped:
		case <-time.After(10 * time.Second):
			return "AwaitStop:deadlock", fmt.Sprintf("AwaitStop did not return within 100 s of RequestStop although all %d client requests had completed", cy.InFlight)
		}
	}
	histLog(map[string]any{"step": "await-stop-returned"})
	// both listeners must be closed: the same addresses bind again immediately
	for _, addr := range []string{a.prover, a.metrics} {
		if err := bindsNow(addr); err != nil {
			return "AwaitStop:address-still-bound", fmt.Sprintf("after AwaitStop returned, %s cannot be bound: %v", addr, err)
		}
	}
	wg.Wait()
	if slow != nil {
		if slowRes.Err != "" {
			return "shutdown:in-flight-request-dropped", fmt.Sprintf("a request accepted before the stop (body completed %d ms after it) got no complete response: %s", cy.SlowHoldMs, slowRes.Err)
		}
		if slowRes.Status != 200 || proofVerifies(ps, slowRes.Body, slowReq.Hash) != nil {
			return "shutdown:in-flight-request-failed", fmt.Sprintf("slow-upload request answered %d: %s", slowRes.Status, tail(slowRes.Body, 200))
		}
	}
	for i, res := range results {
		if res.Err != "" {
			return "shutdown:in-flight-request-dropped", fmt.Sprintf("request %d was in flight when the stop was requested and got no complete response: %s", i, res.Err)
		}
		if res.Status != 200 {
			return "shutdown:in-flight-request-failed", fmt.Sprintf("request %d (valid batch, in flight at the stop) answered %d: %s", i, res.Status, tail(res.Body, 200))
		}
		if err := proofVerifies(ps, res.Body, reqs[i].Hash); err != nil {
			return "shutdown:in-flight-response-invalid", fmt.Sprintf("request %d: %v", i, err)
		}
	}
	// new connections after the stop are refused
	if c, err := net.DialTimeout("tcp", a.prover, time.Second); err == nil {
		c.Close()
		return "shutdown:still-accepting", "the prover address accepts connections after AwaitStop returned"
	}
	return "", ""
}

func runC14(c c14Case) Result {
	ps, err := getSystem(c.Mode, 3, 2)
	if err != nil {
		return bad("setup", "harness:setup", "%v", err)
	}
	if c14addr == nil {
		c14addr = &c14Addrs{freeAddr(), freeAddr()}
	}
	inflight, early, slowCycles := 0, 0, 0
	for i, cy := range c.Cycles {
		reqs := make([]genReq, cy.InFlight)
		for j := range reqs {
			m := fixedValidParams(c.Mode, i*7+j)
			reqs[j] = genReq{Method: "POST", Body: m.writeDoc(styleHexLower), Expect: "valid", Hash: m.InputHash}
		}
		sm := fixedValidParams(c.Mode, i*7+5)
		slowReq := genReq{Method: "POST", Body: sm.writeDoc(styleHexLower), Expect: "valid", Hash: sm.InputHash}
		if sig, msg := c14RunCycle(ps, c.Mode, c14addr, cy, reqs, slowReq); sig != "" {
			return bad(fmt.Sprintf("cycle/inflight=%d/%s", cy.InFlight, cy.Delay), sig, "cycle %d of %d (in flight %d, delay %s %d): %s", i+1, len(c.Cycles), cy.InFlight, cy.Delay, cy.DelayN, msg)
		}
		if (cy.InFlight > 0 || cy.SlowHoldMs > 0) && cy.Delay != "after-completion" {
			inflight++
		}
		if cy.SlowHoldMs > 0 {
			slowCycles++
		}
		if cy.InFlight == 0 && (cy.Delay == "none" || cy.Delay == "yield" || cy.Delay == "us") {
			early++
		}
	}
	class := fmt.Sprintf("cycles=%d", bucket(len(c.Cycles)))
	r := ok(class, inflight > 0 || early > 0 || len(c.Cycles) >= 2)
	return r.tag(fmt.Sprintf("cycles-with-inflight:%d", inflight), fmt.Sprintf("cycles-stopped-early:%d", early), fmt.Sprintf("cycles-with-slow-upload:%d", slowCycles))
}

// fixedValidParams returns a deterministic valid batch (depth 3, batch 2)
// that differs per index, built directly on the reference tree (no rapid:
// the requests of a shutdown cycle are not part of the generated case).
func fixedValidParams(mode string, i int) *mParams {
	tree := ref.NewTree(3)
	for l := uint64(0); l < 4; l++ {
		tree.Set(l, big.NewInt(int64(1000*i+int(l)+1)))
	}
	m := &mParams{Mode: mode}
	if mode == "insertion" {
		w := buildValidInsertion(tree, 4, []*big.Int{big.NewInt(int64(7*i + 5)), big.NewInt(int64(7*i + 6))})
		m.StartIndex, m.PreRoot, m.PostRoot, m.IdComms, m.MerkleProofs = 4, w.Pre, w.Post, w.Ids, w.Paths
		m.InputHash = ref.Mod(ref.HashInsertion(m.StartIndex, m.PreRoot, m.PostRoot, m.IdComms))
		return m
	}
	m.PreRoot = tree.Root()
	for _, l := range []uint64{uint64(i % 4), uint64((i + 1) % 4)} {
		m.DeletionIndices = append(m.DeletionIndices, uint32(l))
		m.IdComms = append(m.IdComms, tree.Get(l))
		m.MerkleProofs = append(m.MerkleProofs, tree.Path(l))
		tree.Set(l, big.NewInt(0))
	}
	m.PostRoot = tree.Root()
	m.InputHash = ref.Mod(ref.HashDeletion(m.DeletionIndices, m.PreRoot, m.PostRoot))
	return m
}

func newClientTimeout() time.Duration { return 120 * time.Second }

func init() {
	registerReplay("TestC14_Cycles", runC14)
}

func TestC14_Cycles(t *testing.T) {
	os.Setenv("VERIF_TESTNAME", "TestC14_Cycles")
	if _, err := getSystem("deletion", 3, 2); err != nil {
		t.Fatalf("harness: %v", err)
	}
	RunRapid(t, Check[c14Case]{Prop: "C14", Test: "TestC14_Cycles", Gen: genC14, Run: runC14})
}

// TestC14_Immediate: many Run / RequestStop / AwaitStop cycles on one address
// pair with the stop issued immediately (before the listeners are up) or a
// few microseconds later; the schedule is whatever the runtime produces at
// the GOMAXPROCS the driver sets. Each cycle must leave both addresses free.
func TestC14_Immediate(t *testing.T) {
	os.Setenv("VERIF_TESTNAME", "TestC14_Immediate")
	col := stats.New("C14", "TestC14_Immediate")
	defer col.Flush()
	ps, err := newSmallSystem(SmallShape{NMul: 2, NPub: 1, NSec: 1, Depth: 3, Batch: 2})
	if err != nil {
		t.Fatal(err)
	}
	a := &c14Addrs{freeAddr(), freeAddr()}
	n := EnvInt("CYCLES", 20000)
	histLog(map[string]any{"step": "immediate-cycles", "n": n, "gomaxprocs": os.Getenv("GOMAXPROCS"), "addrs": []string{a.prover, a.metrics}})
	delays := []c14Cycle{{Delay: "none"}, {Delay: "yield"}, {Delay: "us", DelayN: 1}, {Delay: "us", DelayN: 20}, {Delay: "us", DelayN: 100}, {Delay: "none"}}
	for i := 0; i < n; i++ {
		cy := delays[i%len(delays)]
		cfg := server.Config{ProverAddress: a.prover, MetricsAddress: a.metrics, Mode: "deletion"}
		job := server.Run(&cfg, ps)
		switch cy.Delay {
		case "yield":
			time.Sleep(0)
		case "us":
			time.Sleep(time.Duration(cy.DelayN) * time.Microsecond)
		}
		done := make(chan struct{})
		go func() { job.RequestStop(); job.AwaitStop(); close(done) }()
		select {
		case <-done:
		case <-time.After(60 * time.Second):
			res := bad("immediate", "AwaitStop:deadlock", "cycle %d: AwaitStop did not return within 60 s of an immediate RequestStop (no requests were ever sent)", i)
			if msg := handle(col, "C14", "TestC14_Immediate", cy, res); msg != "" {
				fmt.Printf("VIOLATION property=C14 replay=%s\n", replayPath("C14", "TestC14_Immediate"))
				t.Fatal(msg)
			}
		}
		for _, addr := range []string{a.prover, a.metrics} {
			if err := bindsNow(addr); err != nil {
				res := bad("immediate", "AwaitStop:address-still-bound", "cycle %d (delay %s %dus): after AwaitStop returned, %s cannot be bound: %v", i, cy.Delay, cy.DelayN, addr, err)
				if msg := handle(col, "C14", "TestC14_Immediate", map[string]any{"cycle": i, "delay": cy}, res); msg != "" {
					fmt.Printf("VIOLATION property=C14 replay=%s\n", replayPath("C14", "TestC14_Immediate"))
					t.Fatal(msg)
				}
			}
		}
		col.CountEnumerated("immediate/"+cy.Delay, true, func() any { return cy })
		if i%1000 == 0 {
			histLog(map[string]any{"step": "cycle", "i": i})
		}
	}
}

// TestC14_CLI: the command-line server under SIGINT.
func TestC14_CLI(t *testing.T) {
	os.Setenv("VERIF_TESTNAME", "TestC14_CLI")
	col := stats.New("C14", "TestC14_CLI")
	defer col.Flush()
	if cliPath() == "" {
		t.Fatal("VERIF_CLI not set")
	}
	ps, err := getSystem("deletion", 3, 2)
	if err != nil {
		t.Fatal(err)
	}
	dir, err := os.MkdirTemp(os.Getenv("VERIF_WORK"), "c14cli-")
	if err != nil {
		t.Fatal(err)
	}
	defer os.RemoveAll(dir)
	keys := filepath.Join(dir, "keys.ps")
	data, _, err := writeSystem(ps, true)
	if err != nil {
		t.Fatal(err)
	}
	if err := os.WriteFile(keys, data, 0o644); err != nil {
		t.Fatal(err)
	}
	data = nil
	runs := EnvInt("CLIRUNS", 2)
	for j, d := range []time.Duration{400 * time.Millisecond, 1500 * time.Millisecond, 5 * time.Millisecond, 60 * time.Millisecond} {
		if j >= 2 && !Thorough() {
			break
		}
		res := c14CLIStartupSigint(keys, d)
		if msg := handle(col, "C14", "TestC14_CLI", map[string]any{"startupSigintAfter": d.String()}, res); msg != "" {
			fmt.Printf("VIOLATION property=C14 replay=%s\n", replayPath("C14", "TestC14_CLI"))
			t.Fatal(msg)
		}
	}
	for i := 0; i < runs; i++ {
		k := i % 3         // requests in flight at SIGINT
		double := i%2 == 1 // a second SIGINT arrives while an accepted request (body half uploaded) is still being served
		c := map[string]any{"run": i, "inFlight": k, "secondSigint": double}
		res := c14CLIRun(ps, keys, k, i, double)
		res.Class = fmt.Sprintf("cli/inflight=%d/second-sigint=%v", k, double)
		if msg := handle(col, "C14", "TestC14_CLI", c, res); msg != "" {
			fmt.Printf("VIOLATION property=C14 replay=%s\n", replayPath("C14", "TestC14_CLI"))
			t.Fatal(msg)
		}
	}
}

// c14CLIStartupSigint: "however the stop is timed relative to start-up" for the command-line server. The keys file is a
// FIFO, so the process sits in "loading the proving system" for as long as the harness likes; SIGINT arrives in that
// window, then the keys are fed. Either answer of a correct tree is accepted: the process dies of the signal at once (no
// handler installed yet - the unchanged tree), or it finishes loading and then stops gracefully. What must not happen
// is that the stop is LOST: the process loads, starts serving and never exits. Positive signs only: the prover address
// accepting connections and the process still alive 30 s after that.
func c14CLIStartupSigint(keys string, delay time.Duration) Result {
	dir := filepath.Dir(keys)
	fifo := filepath.Join(dir, fmt.Sprintf("keys-%d.fifo", delay.Milliseconds()))
	if err := syscall.Mkfifo(fifo, 0o600); err != nil {
		return bad("cli-startup", "harness:mkfifo", "%v", err)
	}
	defer os.Remove(fifo)
	w, err := os.OpenFile(fifo, os.O_RDWR, 0) // O_RDWR never blocks on a FIFO (Linux); we are its writer
	if err != nil {
		return bad("cli-startup", "harness:fifo", "%v", err)
	}
	defer w.Close()
	pa, ma := freeAddr(), freeAddr()
	cmd := exec.Command(cliPath(), "start", "--mode", "deletion", "--keys-file", fifo, "--prover-address", pa, "--metrics-address", ma)
	logf, _ := os.CreateTemp(dir, "startup-*.log")
	defer logf.Close()
	cmd.Stdout, cmd.Stderr = logf, logf
	if err := cmd.Start(); err != nil {
		return bad("cli-startup", "harness:start", "%v", err)
	}
	exited := make(chan error, 1)
	go func() { exited <- cmd.Wait() }()
	time.Sleep(delay)
	cmd.Process.Signal(syscall.SIGINT)
	select {
	case <-exited:
		return ok("cli-startup/sigint-while-loading", true).tag("startup-sigint:process-ended-at-once")
	case <-time.After(2 * time.Second):
	}
	// still alive: the signal is being held for later (or was lost). Let the load finish.
	fed := make(chan error, 1)
	go func() {
		f, err := os.Open(keys)
		if err != nil {
			fed <- err
			return
		}
		defer f.Close()
		_, err = io.Copy(w, f)
		fed <- err
	}()
	accepting := time.Time{}
	deadline := time.Now().Add(300 * time.Second)
	for time.Now().Before(deadline) {
		select {
		case <-exited:
			w.Close()
			return ok("cli-startup/sigint-while-loading", true).tag("startup-sigint:stopped-after-load")
		default:
		}
		if c, err := net.DialTimeout("tcp", pa, time.Second); err == nil {
			c.Close()
			if accepting.IsZero() {
				accepting = time.Now()
			}
		}
		if !accepting.IsZero() && time.Since(accepting) > 30*time.Second {
			cmd.Process.Kill()
			<-exited
			w.Close()
			out, _ := os.ReadFile(logf.Name())
			return bad("cli-startup/sigint-while-loading", "cli-start:stop-during-startup-lost", "SIGINT %v after process start (keys still loading) neither ended the process nor stopped it after the load: 30 s after the prover address began accepting connections the server is still running; log tail: %s", delay, tail(out, 300))
		}
		time.Sleep(100 * time.Millisecond)
	}
	cmd.Process.Kill()
	<-exited
	w.Close()
	return bad("cli-startup/sigint-while-loading", "harness:startup-sigint-inconclusive", "process neither exited nor began serving within 300 s")
}

func c14CLIRun(ps *prover.ProvingSystem, keys string, k, salt int, double bool) Result {
	pa, ma := freeAddr(), freeAddr()
	cmd := exec.Command(cliPath(), "start", "--mode", "deletion", "--keys-file", keys, "--prover-address", pa, "--metrics-address", ma)
	logf, _ := os.CreateTemp(filepath.Dir(keys), "start-*.log")
	defer logf.Close()
	cmd.Stdout, cmd.Stderr = logf, logf
	if err := cmd.Start(); err != nil {
		return bad("cli", "harness:start", "%v", err)
	}
	exited := make(chan error, 1)
	go func() { exited <- cmd.Wait() }()
	ts := &testServer{ProverAddr: pa, MetricsAddr: ma, Mode: "deletion", PS: ps, client: newClient()}
	// readiness: a completed /metrics round trip, then 300 ms so the signal handler is certainly installed
	deadline := time.Now().Add(120 * time.Second)
	for {
		if sc := ts.scrape(2 * time.Second); sc.Err == "" && sc.Status == 200 {
			break
		}
		select {
		case err := <-exited:
			return bad("cli", "harness:start-exited", "start exited before becoming ready: %v", err)
		default:
		}
		if time.Now().After(deadline) {
			cmd.Process.Kill()
			return bad("cli", "harness:not-ready", "start did not become ready")
		}
		time.Sleep(20 * time.Millisecond)
	}
	if err := ts.waitReady(10 * time.Second); err != nil {
		cmd.Process.Kill()
		return bad("cli", "harness:not-ready", "%v", err)
	}
	time.Sleep(300 * time.Millisecond)
	results := make([]httpResult, k)
	reqs := make([]*mParams, k)
	var wg sync.WaitGroup
	for i := 0; i < k; i++ {
		reqs[i] = fixedValidParams("deletion", 100+salt*5+i)
		wg.Add(1)
		go func(i int) {
			defer wg.Done()
			results[i] = ts.do("POST", []byte(reqs[i].writeDoc(styleHexLower)))
		}(i)
	}
	if k > 0 {
		dl := time.Now().Add(20 * time.Second)
		for {
			sc := ts.scrape(5 * time.Second)
			if sc.HasGauge && int(sc.InFlight) >= k {
				break
			}
			if time.Now().After(dl) {
				break
			}
			time.Sleep(time.Millisecond)
		}
	}
	var slow *slowUpload
	var slowM *mParams
	if double {
		slowM = fixedValidParams("deletion", 300+salt)
		var err error
		if slow, err = startSlowUpload(pa, genReq{Method: "POST", Body: slowM.writeDoc(styleHexLower)}); err != nil {
			cmd.Process.Kill()
			return bad("cli", "harness:slow-upload", "%v", err)
		}
		defer slow.close()
		dl := time.Now().Add(20 * time.Second)
		for time.Now().Before(dl) {
			if sc := ts.scrape(5 * time.Second); sc.HasGauge && int(sc.InFlight) >= k+1 {
				break
			}
			time.Sleep(time.Millisecond)
		}
	}
	cmd.Process.Signal(syscall.SIGINT)
	if double {
		// the stop has been requested; the operator (or a supervisor) repeats the signal while the server drains
		time.Sleep(200 * time.Millisecond)
		cmd.Process.Signal(syscall.SIGINT)
		time.Sleep(300 * time.Millisecond)
		res := slow.finish(120 * time.Second)
		if res.Err != "" {
			cmd.Process.Kill()
			return bad("cli", "shutdown:in-flight-request-dropped", "CLI server: a request accepted before SIGINT got no complete response after a second SIGINT during the drain: %s", res.Err)
		}
		if res.Status != 200 || proofVerifies(ps, res.Body, slowM.InputHash) != nil {
			cmd.Process.Kill()
			return bad("cli", "shutdown:in-flight-request-failed", "CLI server: slow request answered %d after a second SIGINT", res.Status)
		}
	}
	var werr error
	select {
	case werr = <-exited:
	case <-time.After(120 * time.Second):
		wg.Wait()
		select {
		case werr = <-exited:
		case <-time.After(10 * time.Second):
			cmd.Process.Kill()
			return bad("cli", "cli-start:no-exit-after-sigint", "the server did not exit within 130 s of SIGINT although all %d requests had completed", k)
		}
	}
	wg.Wait()
	if werr != nil {
		out, _ := os.ReadFile(logf.Name())
		return bad("cli", "cli-start:exit-status", "exit after SIGINT: %v; log tail: %s", werr, tail(out, 400))
	}
	for i, res := range results {
		if res.Err != "" {
			return bad("cli", "shutdown:in-flight-request-dropped", "CLI server: request %d in flight at SIGINT got no complete response: %s", i, res.Err)
		}
		if res.Status != 200 || proofVerifies(ps, res.Body, reqs[i].InputHash) != nil {
			return bad("cli", "shutdown:in-flight-request-failed", "CLI server: request %d answered %d / invalid proof", i, res.Status)
		}
	}
	for _, addr := range []string{pa, ma} {
		if err := bindsNow(addr); err != nil {
			return bad("cli", "cli-start:address-still-bound", "after exit %s cannot be bound: %v", addr, err)
		}
	}
	return ok("cli", true)
}
