package props

import (
	"fmt"
	"math/big"
	"testing"

	"golang.org/x/crypto/sha3"
	"pgregory.net/rapid"

	"verifharness/ref"
	"verifharness/stats"
)

// C03 — the public input binds the batch: Keccak of the canonical on-chain packing.

type c03Case struct {
	Mode   string          `json:"mode"`   // insertion | deletion
	Engine string          `json:"engine"` // e1 | e2
	Kind   string          `json:"kind"`   // honest | public+-1 | other-batch | swap-witness | forge256 | forge32
	Ins    *ref.InsWitness `json:"ins,omitempty"`
	Del    *ref.DelWitness `json:"del,omitempty"`
	Public *big.Int        `json:"public"`
	Strat  *HintStrategy   `json:"strat,omitempty"`
	Note   string          `json:"note,omitempty"`
}

// genValidInsertion builds a relation-valid insertion batch with commitments
// biased to encoding edges; the last commitment can be searched so that the
// post-root has a leading zero byte.
func genValidInsertion(t *rapid.T, h *history, batch int) *ref.InsWitness {
	last := maxLeaf(h.Depth)
	cands := []uint64{h.nextFree(), rapid.Uint64Range(0, last).Draw(t, "vstart_rnd")}
	if last+1 >= uint64(batch) {
		cands = append(cands, last+1-uint64(batch))
	}
	cands = append(cands, h.Holes...)
	var okc []uint64
	for _, s := range cands {
		if runEmpty(h.Tree, s, batch) {
			okc = append(okc, s)
		}
	}
	if len(okc) == 0 {
		return nil
	}
	start := okc[rapid.IntRange(0, len(okc)-1).Draw(t, "vstart")]
	ids := make([]*big.Int, batch)
	for i := range ids {
		ids[i] = genCommitment(t, "vid", ids[:i])
	}
	if rapid.IntRange(0, 2).Draw(t, "lz_post") == 0 {
		// search the last commitment so that the post-root is shorter than 32 bytes
		base := genField(t, "lz_base")
		for k := int64(0); k < 400; k++ {
			ids[batch-1] = addMod(base, k)
			tr := h.Tree.Clone()
			w := buildValidInsertion(tr, start, ids)
			if len(w.Post.Bytes()) < 32 {
				return w
			}
		}
	}
	return buildValidInsertion(h.Tree.Clone(), start, ids)
}

// genValidDeletion builds a relation-valid deletion batch from valid slot classes.
func genValidDeletion(t *rapid.T, h *history, batch int) *ref.DelWitness {
	depth := h.Depth
	last := maxLeaf(depth)
	work := h.Tree.Clone()
	w := &ref.DelWitness{Depth: depth, Batch: batch, Pre: work.Root()}
	for i := 0; i < batch; i++ {
		occ := work.Occupied()
		var idx *big.Int
		var item *big.Int
		var path []*big.Int
		k := rapid.IntRange(0, 7).Draw(t, "vslot")
		switch {
		case k <= 3 && len(occ) > 0:
			li := occ[rapid.IntRange(0, len(occ)-1).Draw(t, "v_gi")]
			idx, item, path = new(big.Int).SetUint64(li), work.Get(li), work.Path(li)
			work.Set(li, big.NewInt(0))
		case k == 4 && i > 0 && w.Idx[i-1].Cmp(ref.Pow2(depth)) < 0:
			li := w.Idx[i-1].Uint64() ^ uint64(rapid.IntRange(0, 1).Draw(t, "v_dep"))
			idx, item, path = new(big.Int).SetUint64(li), work.Get(li), work.Path(li)
			work.Set(li, big.NewInt(0))
		case k == 5 || k == 6:
			off := pick(t, "v_padoff", uint64(0), last, rapid.Uint64Range(0, last).Draw(t, "v_padrnd"))
			idx = new(big.Int).Add(ref.Pow2(depth), new(big.Int).SetUint64(off))
			item = genField(t, "v_paditem")
			path = make([]*big.Int, depth)
			for j := range path {
				path[j] = genField(t, "v_padpath")
			}
		default:
			li := rapid.Uint64Range(0, last).Draw(t, "v_ei")
			idx, item, path = new(big.Int).SetUint64(li), work.Get(li), work.Path(li)
			work.Set(li, big.NewInt(0))
		}
		w.Idx = append(w.Idx, idx)
		w.Ids = append(w.Ids, item)
		w.Paths = append(w.Paths, path)
	}
	w.Post = work.Root()
	return w
}

// packRaw hashes an explicit sequence of (width, value) fields: the packing
// with arbitrary (possibly non-canonical, >= r) 256-bit contents.
func packRaw(fields []packField) *big.Int {
	h := sha3.NewLegacyKeccak256()
	for _, f := range fields {
		buf := make([]byte, f.W)
		new(big.Int).And(f.V, new(big.Int).Sub(ref.Pow2(8*f.W), big.NewInt(1))).FillBytes(buf)
		h.Write(buf)
	}
	return ref.Mod(new(big.Int).SetBytes(h.Sum(nil)))
}

type packField struct {
	W int
	V *big.Int
}

func insFields(w *ref.InsWitness) []packField {
	f := []packField{{4, w.Start}, {32, w.Pre}, {32, w.Post}}
	for _, v := range w.Ids {
		f = append(f, packField{32, v})
	}
	return f
}

func delFields(w *ref.DelWitness) []packField {
	f := []packField{}
	for _, v := range w.Idx {
		f = append(f, packField{4, v})
	}
	return append(f, packField{32, w.Pre}, packField{32, w.Post})
}

func c03Dims(mode string) [][2]int {
	if mode == "insertion" {
		d := [][2]int{{3, 2}, {2, 3}}
		if Thorough() {
			d = append(d, [2]int{10, 4}, [2]int{32, 1})
		}
		return d
	}
	d := [][2]int{{3, 2}, {2, 4}}
	if Thorough() {
		d = append(d, [2]int{10, 3}, [2]int{1, 18}, [2]int{31, 1})
	}
	return d
}

func genC03(engine string) func(t *rapid.T) c03Case {
	return func(t *rapid.T) c03Case {
		mode := pick(t, "mode", "insertion", "deletion")
		var depth, batch int
		if engine == "e2" {
			d := pick(t, "dims", c03Dims(mode)...)
			depth, batch = d[0], d[1]
		} else {
			if mode == "insertion" {
				depth = pick(t, "depth", 1, 2, 3, 8, 16, 32, 33, 40, rapid.IntRange(1, 32).Draw(t, "depth_any"))
				batch = pick(t, "batch", 1, 2, 3, 4, 8)
			} else {
				depth = pick(t, "depth", 1, 2, 3, 8, 16, 31, rapid.IntRange(1, 31).Draw(t, "depth_any"))
				batch = pick(t, "batch", 1, 2, 4, 17, 18, 20)
			}
		}
		h := genHistory(t, depth, 10)
		c := c03Case{Mode: mode, Engine: engine}
		var fields []packField
		if mode == "insertion" && depth > 32 && rapid.Bool().Draw(t, "high_start") {
			// a tree deeper than 32 levels: a relation-valid insertion at a leaf >= 2^32, which the uint32 of the packing cannot name
			start := uint64(1)<<32 + uint64(rapid.IntRange(0, 1000).Draw(t, "high_off"))
			ids := make([]*big.Int, batch)
			for i := range ids {
				ids[i] = genCommitment(t, "hid", ids[:i])
			}
			c.Ins = buildValidInsertion(h.Tree.Clone(), start, ids)
			fields = insFields(c.Ins)
			c.Kind, c.Public = "start>=2^32-low-bits-hash", packRaw(fields) // the hash of the packing with the low 32 bits of the start index
			return c
		}
		if mode == "insertion" {
			c.Ins = genValidInsertion(t, h, batch)
			if c.Ins == nil { // full small tree: empty the tree and insert at 0
				h = &history{Depth: depth, Tree: ref.NewTreeH(depth, ref.MemoH2())}
				if uint64(batch) > maxLeaf(depth)+1 {
					batch = int(maxLeaf(depth) + 1)
					if engine == "e2" {
						// dimension is fixed by the compiled system: fall back to a forced (invalid) batch
						ids := make([]*big.Int, d2(c03Dims(mode), depth))
						for i := range ids {
							ids[i] = genField(t, "fid")
						}
						c.Ins = forceInsertion(h.Tree.Clone(), 0, ids)
					}
				}
				if c.Ins == nil {
					c.Ins = genValidInsertion(t, h, batch)
				}
			}
			fields = insFields(c.Ins)
		} else {
			c.Del = genValidDeletion(t, h, batch)
			fields = delFields(c.Del)
		}
		canonical := packRaw(fields)
		kinds := []string{"honest", "honest", "public+-1", "other-batch", "swap-witness"}
		if engine == "e2" {
			kinds = append(kinds, "forge256", "forge256", "forge32")
		}
		c.Kind = pick(t, "kind", kinds...)
		c.Public = canonical
		switch c.Kind {
		case "public+-1":
			c.Public = addMod(canonical, pick(t, "pm", int64(1), -1))
		case "other-batch":
			// hash of a batch differing in exactly one packed field
			alt := append([]packField(nil), fields...)
			i := rapid.IntRange(0, len(alt)-1).Draw(t, "alt_field")
			alt[i] = packField{alt[i].W, addMod(alt[i].V, pick(t, "alt_d", int64(1), -1, 256))}
			c.Public = packRaw(alt)
			c.Note = fmt.Sprintf("field%d/w%d", i, alt[i].W)
		case "swap-witness":
			// hash of a *different relation-valid* batch over the same pre-state
			if mode == "deletion" && batch >= 2 {
				// same slots in another order (valid when the swapped slots are independent; the hash differs regardless)
				alt := append([]packField(nil), fields...)
				a := rapid.IntRange(0, batch-1).Draw(t, "sw_a")
				b := rapid.IntRange(0, batch-1).Draw(t, "sw_b")
				alt[a], alt[b] = alt[b], alt[a]
				c.Public = packRaw(alt)
				c.Note = "index-order"
			} else if mode == "insertion" {
				w2 := genValidInsertion(t, h, batch)
				if w2 != nil {
					c.Public = packRaw(insFields(w2))
				}
				c.Note = "other-valid-batch"
			}
		case "forge256":
			// alternative 256-bit decomposition v + k*r of one packed value, answered by the prover
			var cand []int
			for i, f := range fields {
				if f.W == 32 {
					cand = append(cand, i)
				}
			}
			i := cand[rapid.IntRange(0, len(cand)-1).Draw(t, "forge_field")]
			k := rapid.IntRange(1, 5).Draw(t, "forge_k")
			x := new(big.Int).Add(fields[i].V, new(big.Int).Mul(ref.R, big.NewInt(int64(k))))
			for x.BitLen() > 256 {
				k--
				x.Sub(x, ref.R)
			}
			alt := append([]packField(nil), fields...)
			alt[i] = packField{32, x}
			c.Public = packRaw(alt)
			c.Strat = &HintStrategy{NB: "plus_kr", K: k, N: 256, OnlyValue: ref.Clone(fields[i].V)}
			c.Note = fmt.Sprintf("field%d/k=%d", i, k)
		case "forge32":
			var cand []int
			for i, f := range fields {
				if f.W == 4 {
					cand = append(cand, i)
				}
			}
			i := cand[rapid.IntRange(0, len(cand)-1).Draw(t, "forge_field")]
			other := new(big.Int).SetUint64(uint64(genIndex32(t, "forge_other")))
			alt := append([]packField(nil), fields...)
			alt[i] = packField{4, other}
			c.Public = packRaw(alt)
			c.Strat = &HintStrategy{N: 32, OnlyValue: ref.Clone(fields[i].V)}
			if rapid.Bool().Draw(t, "f32_digit2") {
				c.Strat.NB, c.Strat.J = "digit2", rapid.IntRange(0, 30).Draw(t, "f32_j")
			} else {
				c.Strat.NB, c.Strat.Other = "other", other
			}
			c.Note = fmt.Sprintf("field%d", i)
		}
		return c
	}
}

func d2(dims [][2]int, depth int) int {
	for _, d := range dims {
		if d[0] == depth {
			return d[1]
		}
	}
	return 1
}

func hasShortField(fields []packField) bool {
	for _, f := range fields {
		if f.W == 32 && len(f.V.Bytes()) < 32 {
			return true
		}
	}
	return false
}

func runC03(c c03Case) Result {
	var fields []packField
	var relOK bool
	var depth, batch int
	if c.Mode == "insertion" {
		fields = insFields(c.Ins)
		relOK = ref.RIns(ref.R, ref.H2, c.Ins) == "" && c.Ins.Start.Cmp(pow32) < 0
		depth, batch = c.Ins.Depth, c.Ins.Batch
	} else {
		fields = delFields(c.Del)
		relOK = ref.RDel(ref.R, ref.H2, c.Del) == ""
		depth, batch = c.Del.Depth, c.Del.Batch
	}
	canonical := packRaw(fields)
	bound := c.Public.Cmp(canonical) == 0
	if c.Mode == "insertion" && c.Ins.Start.Cmp(pow32) >= 0 {
		bound = false // no uint32 names this start index: no public input is the hash of this batch's packing
	}
	nbytes := 0
	for _, f := range fields {
		nbytes += f.W
	}
	blocks := (nbytes + 1 + 135) / 136
	class := fmt.Sprintf("%s/%s/%s", c.Engine, c.Mode, c.Kind)
	tags := []string{fmt.Sprintf("dims:%s:%s:%dx%d", c.Engine, c.Mode, depth, batch), fmt.Sprintf("keccak-blocks:%d", blocks)}
	if hasShortField(fields) {
		tags = append(tags, "short-256bit-field")
	}
	nontrivial := c.Kind != "honest" || hasShortField(fields) || blocks >= 2
	var accepted, nonstd bool
	var detail string
	switch c.Engine {
	case "e1":
		var err error
		if c.Mode == "insertion" {
			err = E1(insFullCircuit(depth, batch), insFullAssign(c.Ins, c.Public), ref.R)
		} else {
			err = E1(delFullCircuit(depth, batch), delFullAssign(c.Del, c.Public), ref.R)
		}
		accepted, detail = err == nil, errStr(err)
	case "e2":
		var cc *Compiled
		var err error
		var r SolveResult
		if c.Mode == "insertion" {
			if cc, err = insCompiled(depth, batch); err == nil {
				r = cc.Solve(insFullAssign(c.Ins, c.Public), c.Strat)
			}
		} else {
			if cc, err = delCompiled(depth, batch); err == nil {
				r = cc.Solve(delFullAssign(c.Del, c.Public), c.Strat)
			}
		}
		if err != nil {
			return bad(class, "harness:compile", "%v", err)
		}
		if cc.NbPublic != 1 {
			return bad(class, "Circuit:public-input-count", "%s system %dx%d has %d public inputs, want exactly 1", c.Mode, depth, batch, cc.NbPublic)
		}
		if r.Inconsist {
			return bad(class, "harness:solver-evaluator-disagree", "solver accepted but evaluator found an unsatisfied constraint")
		}
		accepted, nonstd, detail = r.Accept, r.HintNonStd, errStr(r.SolverErr)
		if !c.Strat.Honest() && !nonstd {
			tags = append(tags, "strategy-noop")
		}
	}
	if accepted && !bound {
		return bad(class, "InputHash:unbound:"+c.Mode+":"+c.Kind, "%s %dx%d kind=%s note=%s: accepted with public input %s but Keccak(canonical packing) mod r = %s", c.Mode, depth, batch, c.Kind, c.Note, c.Public.Text(16), canonical.Text(16))
	}
	if !accepted && bound && relOK && !nonstd {
		return bad(class, "InputHash:canonical-rejected:"+c.Mode, "%s %dx%d kind=%s: valid batch with the canonical hash rejected by the honest prover (%s)", c.Mode, depth, batch, c.Kind, detail)
	}
	return ok(class, nontrivial).tag(tags...)
}

func init() {
	registerReplay("TestC03_E1", runC03)
	registerReplay("TestC03_E2", runC03)
}

func TestC03_E1(t *testing.T) {
	RunRapid(t, Check[c03Case]{Prop: "C03", Test: "TestC03_E1", Gen: genC03("e1"), Run: runC03})
}

func TestC03_E2(t *testing.T) {
	RunRapid(t, Check[c03Case]{Prop: "C03", Test: "TestC03_E2", Gen: genC03("e2"), Run: runC03})
}

var _ = stats.New
