package props

import (
	"crypto/sha256"
	"encoding/hex"
	"fmt"
	"os"
	"path/filepath"
	"regexp"
	"sort"
	"strings"
	"testing"
	"time"

	"pgregory.net/rapid"

	"worldcoin/gnark-mbu/prover"

	"verifharness/stats"
)

// C17 — the Lean model under formal verification is the current circuit.

type c17Case struct {
	Kind       string `json:"kind"` // definition | whole-text | identifier | sweep | cli | guard
	Name       string `json:"name,omitempty"`
	Depth      int    `json:"depth,omitempty"`
	Batch      int    `json:"batch,omitempty"`
	GoMaxProcs int    `json:"gomaxprocs,omitempty"`
}

func extractLean(depth, batch int) (text string, err error) {
	defer func() {
		if r := recover(); r != nil {
			err = fmt.Errorf("panic: %v", r)
		}
	}()
	return prover.ExtractLean(uint32(depth), uint32(batch))
}

var defRe = regexp.MustCompile(`(?m)^(def|abbrev|theorem|lemma)\s+([A-Za-z_][A-Za-z_0-9]*)`)

// leanDefs splits a Lean file into named top-level blocks.
func leanDefs(text string) (map[string]string, []string) {
	idx := defRe.FindAllStringSubmatchIndex(text, -1)
	defs := map[string]string{}
	var order []string
	for i, m := range idx {
		end := len(text)
		if i+1 < len(idx) {
			end = idx[i+1][0]
		}
		name := text[m[4]:m[5]]
		body := strings.TrimRight(text[m[0]:end], "\n ")
		body = strings.TrimSuffix(body, "end SemaphoreMTB")
		defs[name] = strings.TrimRight(body, "\n ")
		order = append(order, name)
	}
	return defs, order
}

func fvDir() string { return filepath.Join(RepoDir(), "formal-verification") }

var c17out string

var (
	c17fresh     string
	c17freshErr  error
	c17committed string
)

func c17Load() error {
	if c17fresh == "" && c17freshErr == nil {
		c17fresh, c17freshErr = extractLean(30, 4)
		raw, err := os.ReadFile(filepath.Join(fvDir(), "FormalVerification.lean"))
		if err != nil {
			c17freshErr = err
		}
		c17committed = string(raw)
	}
	return c17freshErr
}

var identRe = regexp.MustCompile(`SemaphoreMTB\.([A-Za-z_][A-Za-z_0-9]*)`)
var renameRe = regexp.MustCompile(`open\s+SemaphoreMTB\s+renaming\s+([A-Za-z_][A-Za-z_0-9]*)\s*→`)

// referencedIdentifiers lists the model identifiers the hand-written proofs refer to.
func referencedIdentifiers() ([]string, error) {
	files, _ := filepath.Glob(filepath.Join(fvDir(), "FormalVerification", "*.lean"))
	files = append(files, filepath.Join(fvDir(), "Main.lean"))
	set := map[string]bool{}
	for _, f := range files {
		raw, err := os.ReadFile(f)
		if err != nil {
			return nil, err
		}
		for _, m := range identRe.FindAllStringSubmatch(string(raw), -1) {
			set[m[1]] = true
		}
		for _, m := range renameRe.FindAllStringSubmatch(string(raw), -1) {
			set[m[1]] = true
		}
	}
	out := []string{}
	for k := range set {
		out = append(out, k)
	}
	sort.Strings(out)
	return out, nil
}

func digest(s string) string {
	h := sha256.Sum256([]byte(s))
	return hex.EncodeToString(h[:8])
}

func runC17(c c17Case) Result {
	switch c.Kind {
	case "whole-text", "definition", "identifier":
		if err := c17Load(); err != nil {
			return bad(c.Kind, "ExtractLean:error", "extraction at (30,4) failed: %v", err)
		}
		freshDefs, _ := leanDefs(c17fresh)
		commDefs, _ := leanDefs(c17committed)
		switch c.Kind {
		case "whole-text":
			if c17fresh != c17committed {
				// name the first differing definition for the report
				names := []string{}
				for n, b := range commDefs {
					if fb, okk := freshDefs[n]; !okk || fb != b {
						names = append(names, n)
					}
				}
				for n := range freshDefs {
					if _, okk := commDefs[n]; !okk {
						names = append(names, n+"(new)")
					}
				}
				sort.Strings(names)
				if len(names) > 8 {
					names = append(names[:8], "...")
				}
				return bad("whole-text", "FormalVerification.lean:stale", "the committed Lean model differs from what extraction produces from the current circuits at depth 30, batch 4; differing definitions: %v", names)
			}
			return ok("whole-text", true)
		case "definition":
			fb, inFresh := freshDefs[c.Name]
			cb, inComm := commDefs[c.Name]
			switch {
			case !inFresh:
				return bad("definition", "FormalVerification.lean:extra-definition", "committed model defines %s, current extraction does not", c.Name)
			case !inComm:
				return bad("definition", "FormalVerification.lean:missing-definition", "current extraction defines %s, committed model does not", c.Name)
			case fb != cb:
				return bad("definition", "FormalVerification.lean:stale-definition", "definition %s differs between the committed model and the current extraction", c.Name)
			}
			return ok("definition", true)
		default:
			if _, okk := freshDefs[c.Name]; !okk {
				return bad("identifier", "Lean-proofs:dangling-identifier", "the Lean proofs refer to SemaphoreMTB.%s, which the extracted model does not define", c.Name)
			}
			return ok("identifier", true)
		}
	case "sweep":
		a, errA := extractLean(c.Depth, c.Batch)
		b, errB := extractLean(c.Depth, c.Batch)
		if errA != nil || errB != nil {
			return bad("sweep", "ExtractLean:error", "extraction at (%d,%d) failed: %v %v", c.Depth, c.Batch, errA, errB)
		}
		if a != b {
			return bad("sweep", "ExtractLean:nondeterministic", "two extractions at (%d,%d) in one process differ (%s vs %s)", c.Depth, c.Batch, digest(a), digest(b))
		}
		if sig, msg := c17Shape(a, c.Depth, c.Batch); sig != "" {
			return bad("sweep", sig, "%s", msg)
		}
		return ok("sweep", true)
	case "cli":
		// One output path per process, written over again and again - as CI regenerates the committed model in
		// place. It starts as a copy of the committed file; later cases overwrite longer and shorter predecessors.
		if c17out == "" {
			dir, err := os.MkdirTemp(os.Getenv("VERIF_WORK"), "c17-")
			if err != nil {
				return bad("cli", "harness:tempdir", "%v", err)
			}
			c17out = filepath.Join(dir, "FormalVerification.lean")
			if raw, err := os.ReadFile(filepath.Join(fvDir(), "FormalVerification.lean")); err == nil {
				os.WriteFile(c17out, raw, 0o644)
			}
		}
		out := c17out
		r := runCLI(300*time.Second, nil, []string{fmt.Sprintf("GOMAXPROCS=%d", c.GoMaxProcs)}, "extract-circuit", "--output", out, "--tree-depth", fmt.Sprint(c.Depth), "--batch-size", fmt.Sprint(c.Batch))
		if r.ExitCode != 0 {
			return bad("cli", "extract-circuit:exit", "extract-circuit (%d,%d) exited %d: %s", c.Depth, c.Batch, r.ExitCode, tail(r.Stderr, 300))
		}
		raw, err := os.ReadFile(out)
		if err != nil {
			return bad("cli", "extract-circuit:no-output", "%v", err)
		}
		inproc, err := extractLean(c.Depth, c.Batch)
		if err != nil {
			return bad("cli", "ExtractLean:error", "%v", err)
		}
		if string(raw) != inproc {
			sig := "ExtractLean:nondeterministic-across-processes"
			if strings.HasPrefix(string(raw), inproc) || strings.HasPrefix(inproc, string(raw)) {
				sig = "extract-circuit:output-depends-on-previous-file-content"
			}
			return bad("cli", sig, "extract-circuit (%d,%d) in a fresh process with GOMAXPROCS=%d left %d bytes (%s) in the output file, in-process extraction is %d bytes (%s)", c.Depth, c.Batch, c.GoMaxProcs, len(raw), digest(string(raw)), len(inproc), digest(inproc))
		}
		return ok("cli", true)
	case "guard":
		_, err := extractLean(c.Depth, c.Batch)
		if err == nil {
			return bad("guard", "ExtractLean:depth>31-accepted", "extraction at depth %d succeeded although deletion circuits deeper than 31 are unsupported", c.Depth)
		}
		return ok("guard", true)
	}
	return bad(c.Kind, "harness:unknown-kind", "unknown kind")
}

func c17Shape(text string, depth, batch int) (string, string) {
	if !strings.HasSuffix(strings.TrimSpace(text), "end SemaphoreMTB") {
		return "ExtractLean:malformed", fmt.Sprintf("extraction at (%d,%d) does not end with 'end SemaphoreMTB'", depth, batch)
	}
	ins := fmt.Sprintf("def InsertionMbuCircuit_%d_%d_%d_%d_%d ", batch, depth, batch, batch, depth)
	del := fmt.Sprintf("def DeletionMbuCircuit_%d_%d_%d_%d_%d_%d ", batch, batch, depth, batch, batch, depth)
	if !strings.Contains(text, ins) || !strings.Contains(text, del) {
		return "ExtractLean:circuit-definitions-missing", fmt.Sprintf("extraction at (%d,%d) lacks %q or %q", depth, batch, strings.TrimSpace(ins), strings.TrimSpace(del))
	}
	return "", ""
}

func init() {
	registerReplay("TestC17_Committed", runC17)
	registerReplay("TestC17_Sweep", runC17)
}

// TestC17_Committed: every definition of the model, the whole text, and every
// identifier the proofs refer to.
func TestC17_Committed(t *testing.T) {
	col := stats.New("C17", "TestC17_Committed")
	defer col.Flush()
	col.SetExhaustive(true)
	if err := c17Load(); err != nil {
		// reported through the whole-text case below
		_ = err
	}
	freshDefs, _ := leanDefs(c17fresh)
	commDefs, _ := leanDefs(c17committed)
	names := map[string]bool{}
	for n := range freshDefs {
		names[n] = true
	}
	for n := range commDefs {
		names[n] = true
	}
	sorted := []string{}
	for n := range names {
		sorted = append(sorted, n)
	}
	sort.Strings(sorted)
	idents, err := referencedIdentifiers()
	if err != nil {
		t.Fatalf("reading the Lean proofs: %v", err)
	}
	col.Extra("definitions", len(sorted))
	col.Extra("referenced_identifiers", idents)
	RunEnum(t, col, "C17", "TestC17_Committed", func(yield func(c17Case) bool) {
		if !yield(c17Case{Kind: "whole-text", Depth: 30, Batch: 4}) {
			return
		}
		for _, n := range sorted {
			if !yield(c17Case{Kind: "definition", Name: n, Depth: 30, Batch: 4}) {
				return
			}
		}
		for _, n := range idents {
			if !yield(c17Case{Kind: "identifier", Name: n, Depth: 30, Batch: 4}) {
				return
			}
		}
		for _, d := range []int{32, 33, 40} {
			if !yield(c17Case{Kind: "guard", Depth: d, Batch: 1}) {
				return
			}
		}
	}, runC17)
}

func TestC17_Sweep(t *testing.T) {
	RunRapid(t, Check[c17Case]{Prop: "C17", Test: "TestC17_Sweep", Run: runC17, Gen: func(rt *rapid.T) c17Case {
		c := c17Case{Kind: "sweep", Depth: rapid.IntRange(1, 31).Draw(rt, "depth"), Batch: rapid.IntRange(1, 16).Draw(rt, "batch")}
		if cliPath() != "" && rapid.IntRange(0, 3).Draw(rt, "cli") == 0 {
			c.Kind = "cli"
			c.GoMaxProcs = pick(rt, "gomaxprocs", 1, 2, 3, 16)
			if rapid.IntRange(0, 3).Draw(rt, "d30") == 0 {
				c.Depth, c.Batch = 30, 4
			}
		}
		return c
	}})
}
