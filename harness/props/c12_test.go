package props

import (
	"bytes"
	"crypto/sha256"
	"encoding/hex"
	"fmt"
	"io"
	"math/big"
	"os"
	"path/filepath"
	"runtime/debug"
	"strings"
	"sync"
	"testing"
	"time"

	"github.com/consensys/gnark/constraint"
	"pgregory.net/rapid"

	"worldcoin/gnark-mbu/prover"

	"verifharness/ref"
	"verifharness/stats"
)

// C12 — circuit compilation is deterministic, path-independent, with one public input.

type c12Case struct {
	Mode  string   `json:"mode"`
	Depth int      `json:"depth"`
	Batch int      `json:"batch"`
	Paths []string `json:"paths"` // build | build-again | concurrent | setup | import | cli-r1cs:<gomaxprocs> | cli-setup | cli-import
}

func csDigest(cs constraint.ConstraintSystem) (string, int, error) {
	var b bytes.Buffer
	if _, err := cs.WriteTo(&b); err != nil {
		return "", 0, err
	}
	h := sha256.Sum256(b.Bytes())
	return hex.EncodeToString(h[:]), b.Len(), nil
}

func buildR1CS(mode string, depth, batch int) (cs constraint.ConstraintSystem, err error) {
	defer func() {
		if r := recover(); r != nil {
			err = fmt.Errorf("panic: %v", r)
		}
	}()
	if mode == "insertion" {
		return prover.BuildR1CSInsertion(uint32(depth), uint32(batch))
	}
	return prover.BuildR1CSDeletion(uint32(depth), uint32(batch))
}

var (
	c12mu      sync.Mutex
	c12digests = map[string]string{} // digest -> triple (distinct triples must have distinct systems)
)

func genC12(t *rapid.T) c12Case {
	c := c12Case{Mode: pick(t, "mode", "insertion", "deletion")}
	maxDepth := 32
	if c.Mode == "deletion" {
		maxDepth = 31
	}
	c.Depth = pick(t, "depth", 1, 2, 3, 4, 8, 16, 20, 30, maxDepth, rapid.IntRange(1, maxDepth).Draw(t, "depth_any"))
	c.Batch = rapid.IntRange(1, 8).Draw(t, "batch")
	if rapid.IntRange(0, 3).Draw(t, "large") == 0 {
		// larger products of depth and batch (size-dependent compile options would show only here)
		c.Depth = pick(t, "ldepth", 16, 20, 26, 30, maxDepth)
		c.Batch = pick(t, "lbatch", 10, 13, 16)
	}
	c.Paths = []string{"build"}
	if rapid.IntRange(0, 2).Draw(t, "with_import") > 0 {
		c.Paths = append(c.Paths, "import-foreign")
	}
	n := rapid.IntRange(1, 3).Draw(t, "npaths")
	for i := 0; i < n; i++ {
		choices := []string{"build-again", "build-again", "concurrent"}
		choices = append(choices, "build-memlimit", "relatives", "relatives")
		if cliPath() != "" {
			// fresh processes under different runtime settings a deployment may impose
			choices = append(choices, "cli-r1cs:1", "cli-r1cs:2", "cli-r1cs:3", "cli-r1cs:16", "cli-r1cs:4:GOMEMLIMIT=4GiB", "cli-r1cs:8:GOGC=25", "cli-r1cs:2:GOGC=off:GOMEMLIMIT=8GiB")
		}
		pth := pick(t, "path", choices...)
		if pth == "relatives" && c.Depth*c.Batch > 160 {
			pth = "build-again" // the other mode at the same LARGE dimensions costs a minute; key slips are not size-dependent
		}
		c.Paths = append(c.Paths, pth)
	}
	return c
}

func runC12(c c12Case) Result {
	class := c.Mode
	triple := fmt.Sprintf("%s/%d/%d", c.Mode, c.Depth, c.Batch)
	var ref0 string
	var refLen int
	tags := []string{}
	kinds := map[string]bool{}
	for _, path := range c.Paths {
		var dg string
		var n int
		kind := strings.SplitN(path, ":", 2)[0]
		switch kind {
		case "build", "build-again", "build-memlimit":
			if kind == "build-memlimit" {
				// the same process with a soft memory limit configured, as under GOMEMLIMIT
				old := debug.SetMemoryLimit(4 << 30)
				defer debug.SetMemoryLimit(old)
			}
			cs, err := buildR1CS(c.Mode, c.Depth, c.Batch)
			if err != nil {
				return bad(class, "BuildR1CS:error", "%s: %v", triple, err)
			}
			if pub := cs.GetNbPublicVariables(); pub != 2 { // the constant wire + the input hash
				return bad(class, "Circuit:public-input-count", "%s has %d public variables (constant wire included), want exactly the input hash", triple, pub)
			}
			if dg, n, err = csDigest(cs); err != nil {
				return bad(class, "harness:serialise", "%v", err)
			}
		case "relatives":
			// state carried between builds inside one process: the other mode at the same dimensions, the same mode at
			// another batch size and at another depth are built first (anything memoised under too small a key - dimensions
			// without the mode, batch without depth - would now hold THEIR system), each must differ from this triple's
			// system, and this triple is then built again
			type rel struct {
				mode         string
				depth, batch int
			}
			other := "deletion"
			if c.Mode == "deletion" {
				other = "insertion"
			}
			rels := []rel{}
			if !(other == "deletion" && c.Depth > 31) {
				rels = append(rels, rel{other, c.Depth, c.Batch})
			}
			rels = append(rels, rel{c.Mode, c.Depth, c.Batch%3 + 1})
			rels = append(rels, rel{c.Mode, c.Depth%3 + 1, c.Batch})
			for _, rl := range rels {
				if rl.mode == c.Mode && rl.depth == c.Depth && rl.batch == c.Batch {
					continue
				}
				rcs, err := buildR1CS(rl.mode, rl.depth, rl.batch)
				if err != nil {
					return bad(class, "BuildR1CS:error", "%s/%d/%d: %v", rl.mode, rl.depth, rl.batch, err)
				}
				rdg, _, err := csDigest(rcs)
				if err != nil {
					return bad(class, "harness:serialise", "%v", err)
				}
				rt := fmt.Sprintf("%s/%d/%d", rl.mode, rl.depth, rl.batch)
				c12mu.Lock()
				prev, seen := c12digests[rdg]
				if !seen {
					c12digests[rdg] = rt
				}
				c12mu.Unlock()
				if (seen && prev != rt) || rdg == ref0 {
					if rdg == ref0 {
						prev = triple
					}
					return bad(class, "ConstraintSystem:same-for-different-dimensions", "%s and %s compile to the same constraint system in one process", prev, rt)
				}
			}
			cs, err := buildR1CS(c.Mode, c.Depth, c.Batch)
			if err != nil {
				return bad(class, "BuildR1CS:error", "%s (after relatives): %v", triple, err)
			}
			if dg, n, err = csDigest(cs); err != nil {
				return bad(class, "harness:serialise", "%v", err)
			}
		case "concurrent":
			// four goroutines compile (this triple and three neighbours) at once
			var wg sync.WaitGroup
			res := make([]string, 4)
			errs := make([]error, 4)
			for g := 0; g < 4; g++ {
				wg.Add(1)
				go func(g int) {
					defer wg.Done()
					b := c.Batch
					if g > 0 {
						b = c.Batch%8 + 1 + g%2
					}
					cs, err := buildR1CS(c.Mode, c.Depth, b)
					if err != nil {
						errs[g] = err
						return
					}
					if g == 0 {
						res[g], n, errs[g] = csDigest(cs)
					}
				}(g)
			}
			wg.Wait()
			if errs[0] != nil {
				return bad(class, "BuildR1CS:error", "%s (concurrent): %v", triple, errs[0])
			}
			dg = res[0]
		case "setup", "import":
			var cs constraint.ConstraintSystem
			ps, err := getSystem(c.Mode, c.Depth, c.Batch)
			if err != nil {
				return bad(class, "Setup:error", "%s: %v", triple, err)
			}
			cs = ps.ConstraintSystem
			if kind == "import" {
				dir, err := os.MkdirTemp(os.Getenv("VERIF_WORK"), "c12-")
				if err != nil {
					return bad(class, "harness:tempdir", "%v", err)
				}
				defer os.RemoveAll(dir)
				pkp, vkp := filepath.Join(dir, "pk"), filepath.Join(dir, "vk")
				if err := writeKey(pkp, ps.ProvingKey.WriteTo); err != nil {
					return bad(class, "harness:write", "%v", err)
				}
				if err := writeKey(vkp, ps.VerifyingKey.WriteTo); err != nil {
					return bad(class, "harness:write", "%v", err)
				}
				var imp *prover.ProvingSystem
				if c.Mode == "insertion" {
					imp, err = prover.ImportInsertionSetup(uint32(c.Depth), uint32(c.Batch), pkp, vkp)
				} else {
					imp, err = prover.ImportDeletionSetup(uint32(c.Depth), uint32(c.Batch), pkp, vkp)
				}
				if err != nil {
					return bad(class, "ImportSetup:error", "%s: %v", triple, err)
				}
				if int(imp.TreeDepth) != c.Depth || int(imp.BatchSize) != c.Batch {
					return bad(class, "ImportSetup:dimensions", "%s imported as depth %d batch %d", triple, imp.TreeDepth, imp.BatchSize)
				}
				cs = imp.ConstraintSystem
				// keys generated elsewhere for these dimensions remain valid: prove with the imported system, verify with the original
				m := fixedValidParamsDims(c.Mode, c.Depth, c.Batch)
				if m != nil {
					proof, err := proveParams(imp, m)
					if err != nil {
						return bad(class, "ImportSetup:cannot-prove", "%s: imported keys + freshly compiled system cannot prove a valid batch: %v", triple, err)
					}
					if err := verifyWith(ps, c.Mode, m.InputHash, proof); err != nil {
						return bad(class, "ImportSetup:proof-rejected", "%s: %v", triple, err)
					}
				}
			}
			var err2 error
			if dg, n, err2 = csDigest(cs); err2 != nil {
				return bad(class, "harness:serialise", "%v", err2)
			}
		case "import-foreign":
			// the key-import path at ANY dimensions: ImportXSetup compiles the circuit itself and pairs it with whatever
			// key files it is given, so key files of a small cached system are enough to obtain its constraint system
			pkp, vkp, err := foreignKeys(c.Mode)
			if err != nil {
				return bad(class, "harness:foreign-keys", "%v", err)
			}
			var imp *prover.ProvingSystem
			func() {
				defer func() {
					if r := recover(); r != nil {
						err = fmt.Errorf("panic: %v", r)
					}
				}()
				if c.Mode == "insertion" {
					imp, err = prover.ImportInsertionSetup(uint32(c.Depth), uint32(c.Batch), pkp, vkp)
				} else {
					imp, err = prover.ImportDeletionSetup(uint32(c.Depth), uint32(c.Batch), pkp, vkp)
				}
			}()
			if err != nil {
				// an import that checks the keys against the circuit may refuse foreign keys: nothing to compare then
				tags = append(tags, "import-foreign:refused")
				continue
			}
			if int(imp.TreeDepth) != c.Depth || int(imp.BatchSize) != c.Batch {
				return bad(class, "ImportSetup:dimensions", "%s imported as depth %d batch %d", triple, imp.TreeDepth, imp.BatchSize)
			}
			var err2 error
			if dg, n, err2 = csDigest(imp.ConstraintSystem); err2 != nil {
				return bad(class, "harness:serialise", "%v", err2)
			}
		case "cli-r1cs", "cli-setup":
			dir, err := os.MkdirTemp(os.Getenv("VERIF_WORK"), "c12-")
			if err != nil {
				return bad(class, "harness:tempdir", "%v", err)
			}
			defer os.RemoveAll(dir)
			out := filepath.Join(dir, "out")
			gmp := "16"
			var extraEnv []string
			if p := strings.Split(path, ":"); len(p) >= 2 {
				gmp = p[1]
				extraEnv = p[2:]
			}
			sub := "r1cs"
			if kind == "cli-setup" {
				sub = "setup"
			}
			if kind == "cli-r1cs" && refLen > 0 {
				// the output path already exists and is longer than what will be written (a re-run over an older file)
				os.WriteFile(out, bytes.Repeat([]byte{0xAA}, refLen+1000), 0o644)
			}
			cliEnv := append([]string{"GOMAXPROCS=" + gmp}, extraEnv...)
			if (c.Depth+c.Batch)%2 == 0 {
				cliEnv = append(cliEnv, "VERIF_CLEAN_ENV=1") // half of the fresh processes get a scrubbed environment
			}
			r := runCLI(900*time.Second, nil, cliEnv, sub, "--mode", c.Mode, "--output", out, "--tree-depth", fmt.Sprint(c.Depth), "--batch-size", fmt.Sprint(c.Batch))
			if r.ExitCode != 0 {
				return bad(class, "cli-"+sub+":exit", "%s: exit %d: %s", triple, r.ExitCode, tail(r.Stderr, 300))
			}
			raw, err := os.ReadFile(out)
			if err != nil {
				return bad(class, "cli-"+sub+":no-output", "%v", err)
			}
			if kind == "cli-setup" {
				if refLen == 0 || len(raw) < refLen {
					return bad(class, "harness:order", "cli-setup needs an in-process build first")
				}
				raw = raw[len(raw)-refLen:] // the constraint-system section is the file's tail
			}
			h := sha256.Sum256(raw)
			dg, n = hex.EncodeToString(h[:]), len(raw)
		}
		kinds[kind] = true
		tags = append(tags, "path:"+kind)
		if ref0 == "" {
			ref0, refLen = dg, n
			continue
		}
		if dg != ref0 {
			return bad(class, "ConstraintSystem:differs:"+kind, "%s: the constraint system built via %q (%s, %d bytes) differs from the first build (%s, %d bytes)", triple, path, dg[:16], n, ref0[:16], refLen)
		}
	}
	c12mu.Lock()
	prev, seen := c12digests[ref0]
	if !seen {
		c12digests[ref0] = triple
	}
	c12mu.Unlock()
	if seen && prev != triple {
		return bad(class, "ConstraintSystem:same-for-different-dimensions", "%s and %s compile to the same constraint system", prev, triple)
	}
	return ok(class, len(kinds) >= 2 || len(c.Paths) >= 2).tag(tags...)
}

var (
	foreignMu   sync.Mutex
	foreignPath = map[string][2]string{}
)

// foreignKeys writes (once per process) the proving and verifying key of a depth 1 / batch 1 system of the mode.
func foreignKeys(mode string) (string, string, error) {
	foreignMu.Lock()
	defer foreignMu.Unlock()
	if p, okk := foreignPath[mode]; okk {
		return p[0], p[1], nil
	}
	ps, err := getSystem(mode, 1, 1)
	if err != nil {
		return "", "", err
	}
	dir, err := os.MkdirTemp(os.Getenv("VERIF_WORK"), "c12fk-")
	if err != nil {
		return "", "", err
	}
	pkp, vkp := filepath.Join(dir, "pk"), filepath.Join(dir, "vk")
	if err := writeKey(pkp, ps.ProvingKey.WriteTo); err != nil {
		return "", "", err
	}
	if err := writeKey(vkp, ps.VerifyingKey.WriteTo); err != nil {
		return "", "", err
	}
	foreignPath[mode] = [2]string{pkp, vkp}
	return pkp, vkp, nil
}

func writeKey(path string, w func(w io.Writer) (int64, error)) error {
	f, err := os.Create(path)
	if err != nil {
		return err
	}
	defer f.Close()
	_, err = w(f)
	return err
}

// fixedValidParamsDims returns a deterministic valid batch for small
// dimensions (insertion at start 0 on the empty tree / deletion of freshly
// inserted leaves), or nil when the tree is too small.
func fixedValidParamsDims(mode string, depth, batch int) *mParams {
	tree := ref.NewTree(depth)
	m := &mParams{Mode: mode}
	if mode == "insertion" {
		if uint64(batch) > maxLeaf(depth)+1 {
			return nil
		}
		ids := []*big.Int{}
		for i := 0; i < batch; i++ {
			ids = append(ids, big.NewInt(int64(11+i)))
		}
		w := buildValidInsertion(tree, 0, ids)
		m.StartIndex, m.PreRoot, m.PostRoot, m.IdComms, m.MerkleProofs = 0, w.Pre, w.Post, w.Ids, w.Paths
		m.InputHash = ref.Mod(ref.HashInsertion(0, m.PreRoot, m.PostRoot, m.IdComms))
		return m
	}
	n := maxLeaf(depth) + 1
	for l := uint64(0); l < n && l < 8; l++ {
		tree.Set(l, big.NewInt(int64(21+l)))
	}
	m.PreRoot = tree.Root()
	for i := 0; i < batch; i++ {
		l := uint64(i) % n
		m.DeletionIndices = append(m.DeletionIndices, uint32(l))
		m.IdComms = append(m.IdComms, tree.Get(l))
		m.MerkleProofs = append(m.MerkleProofs, tree.Path(l))
		tree.Set(l, big.NewInt(0))
	}
	m.PostRoot = tree.Root()
	m.InputHash = ref.Mod(ref.HashDeletion(m.DeletionIndices, m.PreRoot, m.PostRoot))
	return m
}

func init() {
	registerReplay("TestC12_Paths", runC12)
	registerReplay("TestC12_SetupPaths", runC12)
	registerReplay("TestC12_Guard", runC12GuardCLI)
}

func TestC12_Paths(t *testing.T) {
	for _, m := range []string{"insertion", "deletion"} { // warm before rapid starts timing iterations
		if _, _, err := foreignKeys(m); err != nil {
			t.Fatalf("harness: %v", err)
		}
	}
	RunRapid(t, Check[c12Case]{Prop: "C12", Test: "TestC12_Paths", Gen: genC12, Run: runC12})
}

// TestC12_SetupPaths: the expensive paths (Groth16 setup, key import, CLI
// setup) at small dimensions.
func TestC12_SetupPaths(t *testing.T) {
	col := stats.New("C12", "TestC12_SetupPaths")
	defer col.Flush()
	cases := []c12Case{
		{Mode: "insertion", Depth: 2, Batch: 1, Paths: []string{"build", "setup", "import", "cli-r1cs:1", "build-memlimit"}},
		{Mode: "deletion", Depth: 2, Batch: 3, Paths: []string{"build", "setup", "import", "cli-r1cs:3:GOMEMLIMIT=4GiB"}},
	}
	if Thorough() {
		cases = append(cases,
			c12Case{Mode: "insertion", Depth: 3, Batch: 2, Paths: []string{"build", "setup", "import", "cli-setup", "cli-r1cs:1"}},
			c12Case{Mode: "deletion", Depth: 3, Batch: 2, Paths: []string{"build", "setup", "import", "cli-setup", "cli-r1cs:16"}},
			c12Case{Mode: "deletion", Depth: 1, Batch: 4, Paths: []string{"build", "import", "concurrent"}},
			c12Case{Mode: "insertion", Depth: 4, Batch: 1, Paths: []string{"build", "import", "concurrent"}},
		)
	}
	shard, nsh := Shard(), NShards()
	RunEnum(t, col, "C12", "TestC12_SetupPaths", func(yield func(c12Case) bool) {
		for i, c := range cases {
			if i%nsh != shard {
				continue
			}
			if !yield(c) {
				return
			}
		}
	}, runC12)
}

// ---------------------------------------------------------------------------
// depth guard through every construction path

type c12Guard struct {
	Path  string `json:"path"` // build | setup | import | cli-r1cs | cli-setup | extract
	Depth int    `json:"depth"`
	Batch int    `json:"batch"`
}

func runC12GuardCLI(g c12Guard) Result {
	class := "guard/" + g.Path
	var err error
	switch g.Path {
	case "build":
		_, err = buildR1CS("deletion", g.Depth, g.Batch)
	case "setup":
		func() {
			defer func() {
				if r := recover(); r != nil {
					err = fmt.Errorf("panic: %v", r)
				}
			}()
			_, err = prover.SetupDeletion(uint32(g.Depth), uint32(g.Batch))
		}()
	case "import":
		func() {
			defer func() {
				if r := recover(); r != nil {
					err = fmt.Errorf("panic: %v", r)
				}
			}()
			// readable key files (from an unrelated small setup), so that a refusal can only come from the depth guard
			dir, terr := os.MkdirTemp(os.Getenv("VERIF_WORK"), "c12g-")
			if terr != nil {
				err = nil
				return
			}
			defer os.RemoveAll(dir)
			small, serr := newSmallSystem(SmallShape{NMul: 2, NPub: 1, NSec: 1, Depth: 2, Batch: 1})
			if serr != nil {
				return
			}
			pkp, vkp := filepath.Join(dir, "pk"), filepath.Join(dir, "vk")
			if writeKey(pkp, small.ProvingKey.WriteTo) != nil || writeKey(vkp, small.VerifyingKey.WriteTo) != nil {
				return
			}
			var imp *prover.ProvingSystem
			imp, err = prover.ImportDeletionSetup(uint32(g.Depth), uint32(g.Batch), pkp, vkp)
			if err == nil && imp == nil {
				err = fmt.Errorf("nil system")
			}
		}()
	case "cli-r1cs", "cli-setup":
		dir, terr := os.MkdirTemp(os.Getenv("VERIF_WORK"), "c12g-")
		if terr != nil {
			return bad(class, "harness:tempdir", "%v", terr)
		}
		defer os.RemoveAll(dir)
		out := filepath.Join(dir, "out")
		r := runCLI(600*time.Second, nil, nil, strings.TrimPrefix(g.Path, "cli-"), "--mode", "deletion", "--output", out, "--tree-depth", fmt.Sprint(g.Depth), "--batch-size", fmt.Sprint(g.Batch))
		if r.ExitCode == 0 {
			return bad(class, "cli:depth>31-exit0", "'%s --mode deletion --tree-depth %d' exited 0", strings.TrimPrefix(g.Path, "cli-"), g.Depth)
		}
		if st, serr := os.Stat(out); serr == nil && st.Size() > 0 {
			return bad(class, "cli:depth>31-wrote-output", "'%s' at depth %d failed but left %d bytes of output", g.Path, g.Depth, st.Size())
		}
		return ok(class, true)
	}
	if err == nil {
		return bad(class, "Deletion:depth>31-accepted:"+g.Path, "deletion depth %d accepted by path %s", g.Depth, g.Path)
	}
	return ok(class, true)
}

func TestC12_Guard(t *testing.T) {
	col := stats.New("C12", "TestC12_Guard")
	defer col.Flush()
	RunEnum(t, col, "C12", "TestC12_Guard", func(yield func(c12Guard) bool) {
		for _, d := range []int{32, 33, 64} {
			for _, p := range []string{"build", "setup", "import", "cli-r1cs", "cli-setup"} {
				if strings.HasPrefix(p, "cli") && (cliPath() == "" || d == 64) {
					continue
				}
				if !yield(c12Guard{p, d, 1}) {
					return
				}
			}
		}
	}, runC12GuardCLI)
}
