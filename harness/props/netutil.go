package props

import (
	"fmt"
	"net"
)

// freeAddr asks the kernel for a free TCP port on the loopback interface.
func freeAddr() string {
	l, err := net.Listen("tcp", "127.0.0.1:0")
	if err != nil {
		panic(err)
	}
	defer l.Close()
	return fmt.Sprintf("127.0.0.1:%d", l.Addr().(*net.TCPAddr).Port)
}
