package props

import (
	"encoding/json"
	"fmt"
	"math/big"
	"strings"
	"testing"

	"pgregory.net/rapid"

	"worldcoin/gnark-mbu/prover"

	"verifharness/ref"
)

// C16 — parameter JSON round-trips exactly and rejects non-numbers.

type c16Case struct {
	Kind   string   `json:"kind"` // roundtrip | doc | malformed | badindex | wrongtype
	Params *mParams `json:"params"`
	Style  int      `json:"style,omitempty"`
	Doc    string   `json:"doc,omitempty"`
	Where  string   `json:"where,omitempty"` // mutated position
	What   string   `json:"what,omitempty"`  // injected text
}

func decodeDoc(mode, doc string) (ins *prover.InsertionParameters, del *prover.DeletionParameters, err error, panicked any) {
	defer func() {
		if r := recover(); r != nil {
			panicked = r
		}
	}()
	if mode == "insertion" {
		ins = &prover.InsertionParameters{}
		err = json.Unmarshal([]byte(doc), ins)
	} else {
		del = &prover.DeletionParameters{}
		err = json.Unmarshal([]byte(doc), del)
	}
	return
}

// numericPositions lists the paths of all numeric strings of a document tree.
func numericPositions(m *mParams) []string {
	pos := []string{"inputHash", "preRoot", "postRoot"}
	for i := range m.IdComms {
		pos = append(pos, fmt.Sprintf("identityCommitments/%d", i))
	}
	for i := range m.MerkleProofs {
		for j := range m.MerkleProofs[i] {
			pos = append(pos, fmt.Sprintf("merkleProofs/%d/%d", i, j))
		}
	}
	return pos
}

func setAt(d map[string]any, path string, v any) {
	parts := strings.Split(path, "/")
	var cur any = d
	for k, p := range parts {
		last := k == len(parts)-1
		switch c := cur.(type) {
		case map[string]any:
			if last {
				c[p] = v
			} else {
				cur = c[p]
			}
		case []any:
			var i int
			fmt.Sscan(p, &i)
			if last {
				c[i] = v
			} else {
				cur = c[i]
			}
		}
	}
}

func genC16(t *rapid.T) c16Case {
	mode := pick(t, "mode", "insertion", "deletion")
	m := genArbitraryParams(t, mode)
	kind := pick(t, "kind", "roundtrip", "roundtrip", "doc", "doc", "malformed", "malformed", "badindex", "wrongtype")
	c := c16Case{Kind: kind, Params: m}
	switch kind {
	case "doc":
		c.Style = rapid.IntRange(0, numStyles-1).Draw(t, "style")
		c.Doc = m.writeDoc(c.Style)
	case "malformed":
		pos := numericPositions(m)
		c.Where = pos[rapid.IntRange(0, len(pos)-1).Draw(t, "where")]
		c.What = pick(t, "what", malformedNumbers...)
		d := m.docTree(styleHexLower)
		setAt(d, c.Where, c.What)
		raw, _ := json.Marshal(d)
		c.Doc = string(raw)
	case "badindex":
		c.What = pick(t, "what", "-1", "4294967296", "1.5", `"7"`, "18446744073709551616", "-0.5", `"0x1"`, "true", `[1]`)
		d := m.docTree(styleHexLower)
		if mode == "insertion" {
			c.Where = "startIndex"
			d["startIndex"] = json.RawMessage(c.What)
		} else {
			arr := d["deletionIndices"].([]any)
			i := 0
			if len(arr) == 0 {
				arr = append(arr, nil)
				d["deletionIndices"] = arr
			} else {
				i = rapid.IntRange(0, len(arr)-1).Draw(t, "i")
			}
			arr[i] = json.RawMessage(c.What)
			c.Where = fmt.Sprintf("deletionIndices/%d", i)
		}
		raw, _ := json.Marshal(d)
		c.Doc = string(raw)
	case "wrongtype":
		pos := numericPositions(m)
		c.Where = pos[rapid.IntRange(0, len(pos)-1).Draw(t, "where")]
		c.What = pick(t, "what", "5", "true", "[]", "{}", `["0x1"]`, "1.5")
		d := m.docTree(styleHexLower)
		setAt(d, c.Where, json.RawMessage(c.What))
		raw, _ := json.Marshal(d)
		c.Doc = string(raw)
	}
	return c
}

func c16NonTrivialParams(m *mParams) bool {
	big255 := ref.Pow2(255)
	all := []*big.Int{m.InputHash, m.PreRoot, m.PostRoot}
	all = append(all, m.IdComms...)
	ragged := len(m.MerkleProofs) != len(m.IdComms)
	for _, r := range m.MerkleProofs {
		all = append(all, r...)
		if len(m.MerkleProofs) > 0 && len(r) != len(m.MerkleProofs[0]) {
			ragged = true
		}
	}
	for _, v := range all {
		if v.Cmp(big255) >= 0 || (v.BitLen()+7)/8 < 32 {
			return true
		}
	}
	return ragged || len(m.IdComms) == 0 || len(m.MerkleProofs) == 0
}

func runC16(c c16Case) Result {
	m := c.Params
	class := c.Kind + "/" + m.Mode
	switch c.Kind {
	case "roundtrip":
		var raw []byte
		var err error
		if m.Mode == "insertion" {
			raw, err = json.Marshal(m.toInsertion())
		} else {
			raw, err = json.Marshal(m.toDeletion())
		}
		if err != nil {
			return bad(class, "MarshalJSON:error", "encoding failed: %v", err)
		}
		ins, del, err, pan := decodeDoc(m.Mode, string(raw))
		if pan != nil {
			return bad(class, "UnmarshalJSON:panic", "decoder panicked on encoder output: %v", pan)
		}
		if err != nil {
			return bad(class, "UnmarshalJSON:own-output", "decoder rejects encoder output: %v", err)
		}
		var d string
		if m.Mode == "insertion" {
			d = m.diffInsertion(ins)
		} else {
			d = m.diffDeletion(del)
		}
		if d != "" {
			return bad(class, "roundtrip:"+m.Mode+":"+stripIdx(d), "Unmarshal(Marshal(p)) differs from p in %s", d)
		}
		// the encoded form itself must carry the values (independent read of the text)
		var tree map[string]any
		if err := json.Unmarshal(raw, &tree); err != nil {
			return bad(class, "MarshalJSON:not-json", "encoder output is not JSON: %v", err)
		}
		for _, k := range []struct {
			key  string
			want *big.Int
		}{{"inputHash", m.InputHash}, {"preRoot", m.PreRoot}, {"postRoot", m.PostRoot}} {
			// the encoder's notation is not promised beyond "a number the decoder accepts": 0x-hex or canonical decimal
			s, _ := tree[k.key].(string)
			var v *big.Int
			var okk bool
			if strings.HasPrefix(s, "0x") || strings.HasPrefix(s, "0X") {
				v, okk = new(big.Int).SetString(s[2:], 16)
			} else {
				v, okk = new(big.Int).SetString(s, 10)
			}
			if !okk || v.Cmp(k.want) != 0 {
				return bad(class, "MarshalJSON:"+k.key, "encoded %s = %q does not denote %s", k.key, s, k.want)
			}
		}
		return ok(class, c16NonTrivialParams(m))
	case "doc":
		ins, del, err, pan := decodeDoc(m.Mode, c.Doc)
		if pan != nil {
			return bad(class, "UnmarshalJSON:panic", "decoder panicked: %v", pan)
		}
		cls := fmt.Sprintf("%s/style%d", class, c.Style)
		if err != nil {
			if c.Style == styleDecimal {
				return ok(cls+"/rejected", true) // decimal is not promised; rejecting it is fine
			}
			return bad(cls, "UnmarshalJSON:hex-rejected", "0x-hex document rejected: %v", err)
		}
		var d string
		if m.Mode == "insertion" {
			d = m.diffInsertion(ins)
		} else {
			d = m.diffDeletion(del)
		}
		if d != "" {
			return bad(cls, "UnmarshalJSON:value:"+stripIdx(d), "decoded %s differs from the integer the document denotes", d)
		}
		return ok(cls, true)
	case "malformed", "badindex", "wrongtype":
		ins, del, err, pan := decodeDoc(m.Mode, c.Doc)
		if pan != nil {
			return bad(class, "UnmarshalJSON:panic", "decoder panicked on %s=%q: %v", c.Where, c.What, pan)
		}
		if err == nil {
			// The statement pins STRINGS that are not numbers and indices outside 32 bits. Two acceptances it leaves open are
			// tolerated, provided the value is the one written: a bare non-negative JSON integer where a numeric string is
			// expected, and a string denoting an in-range index.
			if c.Kind == "wrongtype" && isBareNatural(c.What) {
				want := m.clone()
				v, _ := new(big.Int).SetString(c.What, 10)
				want.setNumberAt(c.Where, v)
				var d string
				if m.Mode == "insertion" {
					d = want.diffInsertion(ins)
				} else {
					d = want.diffDeletion(del)
				}
				if d != "" {
					return bad(class, "UnmarshalJSON:value:"+stripIdx(d), "bare integer %s at %s was accepted but decoded %s differs from it", c.What, c.Where, d)
				}
				return ok(class+"/accepted-bare-integer", true)
			}
			if c.Kind == "badindex" && (c.What == `"7"` || c.What == `"0x1"`) {
				return ok(class+"/accepted-index-as-string", true)
			}
			return bad(class, "UnmarshalJSON:accepted-"+c.Kind+":"+stripIdx(c.Where), "document with %s = %s decoded without error", c.Where, c.What)
		}
		return ok(class, true)
	}
	return bad(class, "harness:unknown-kind", "unknown kind %q", c.Kind)
}

func isBareNatural(s string) bool {
	if s == "" {
		return false
	}
	for _, r := range s {
		if r < '0' || r > '9' {
			return false
		}
	}
	return true
}

func (m *mParams) clone() *mParams {
	c := *m
	c.InputHash, c.PreRoot, c.PostRoot = ref.Clone(m.InputHash), ref.Clone(m.PreRoot), ref.Clone(m.PostRoot)
	c.IdComms = ref.CloneSlice(m.IdComms)
	c.DeletionIndices = append([]uint32(nil), m.DeletionIndices...)
	c.MerkleProofs = make([][]*big.Int, len(m.MerkleProofs))
	for i := range m.MerkleProofs {
		c.MerkleProofs[i] = ref.CloneSlice(m.MerkleProofs[i])
	}
	return &c
}

// setNumberAt sets the numeric string position named by a numericPositions path.
func (m *mParams) setNumberAt(path string, v *big.Int) {
	parts := strings.Split(path, "/")
	idx := func(k int) int {
		var i int
		fmt.Sscan(parts[k], &i)
		return i
	}
	switch parts[0] {
	case "inputHash":
		m.InputHash = v
	case "preRoot":
		m.PreRoot = v
	case "postRoot":
		m.PostRoot = v
	case "identityCommitments":
		m.IdComms[idx(1)] = v
	case "merkleProofs":
		m.MerkleProofs[idx(1)][idx(2)] = v
	}
}

func stripIdx(s string) string {
	if i := strings.IndexAny(s, "/["); i >= 0 {
		return s[:i]
	}
	return s
}

func init() { registerReplay("TestC16_Codec", runC16) }

func TestC16_Codec(t *testing.T) {
	RunRapid(t, Check[c16Case]{Prop: "C16", Test: "TestC16_Codec", Gen: genC16, Run: runC16})
}

// FuzzParamsJSON (thorough tier, native coverage-guided fuzzing): arbitrary
// bytes into both decoders. Oracle: no panic; a successfully decoded parameter
// set with non-negative values re-encodes and decodes to itself.
func FuzzParamsJSON(f *testing.F) {
	for _, s := range integrationBodies {
		f.Add([]byte(s))
	}
	for _, s := range []string{`{}`, `null`, `[]`, `{"inputHash":"0x"}`, `{"inputHash":"-0x1","preRoot":"0b1","postRoot":"0o7"}`,
		`{"inputHash":"0x1","startIndex":4294967295,"preRoot":"0x0","postRoot":"0x0","identityCommitments":[],"merkleProofs":[[]]}`,
		`{"inputHash":"1_0","deletionIndices":[4294967296]}`} {
		f.Add([]byte(s))
	}
	f.Fuzz(func(t *testing.T, data []byte) {
		var ins prover.InsertionParameters
		if err := json.Unmarshal(data, &ins); err == nil && insNonNegative(&ins) {
			raw, err := json.Marshal(&ins)
			if err != nil {
				t.Fatalf("re-encode failed: %v", err)
			}
			var again prover.InsertionParameters
			if err := json.Unmarshal(raw, &again); err != nil {
				t.Fatalf("decoder rejects encoder output %s: %v", raw, err)
			}
			raw2, _ := json.Marshal(&again)
			if string(raw) != string(raw2) {
				t.Fatalf("round trip not stable: %s vs %s", raw, raw2)
			}
		}
		var del prover.DeletionParameters
		if err := json.Unmarshal(data, &del); err == nil && delNonNegative(&del) {
			raw, err := json.Marshal(&del)
			if err != nil {
				t.Fatalf("re-encode failed: %v", err)
			}
			var again prover.DeletionParameters
			if err := json.Unmarshal(raw, &again); err != nil {
				t.Fatalf("decoder rejects encoder output %s: %v", raw, err)
			}
			raw2, _ := json.Marshal(&again)
			if string(raw) != string(raw2) {
				t.Fatalf("round trip not stable: %s vs %s", raw, raw2)
			}
		}
	})
}

func insNonNegative(p *prover.InsertionParameters) bool {
	if p.InputHash.Sign() < 0 || p.PreRoot.Sign() < 0 || p.PostRoot.Sign() < 0 {
		return false
	}
	for i := range p.IdComms {
		if p.IdComms[i].Sign() < 0 {
			return false
		}
	}
	for i := range p.MerkleProofs {
		for j := range p.MerkleProofs[i] {
			if p.MerkleProofs[i][j].Sign() < 0 {
				return false
			}
		}
	}
	return true
}

func delNonNegative(p *prover.DeletionParameters) bool {
	if p.InputHash.Sign() < 0 || p.PreRoot.Sign() < 0 || p.PostRoot.Sign() < 0 {
		return false
	}
	for i := range p.IdComms {
		if p.IdComms[i].Sign() < 0 {
			return false
		}
	}
	for i := range p.MerkleProofs {
		for j := range p.MerkleProofs[i] {
			if p.MerkleProofs[i][j].Sign() < 0 {
				return false
			}
		}
	}
	return true
}
