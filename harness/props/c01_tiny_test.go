//go:build g_merkle && g_poseidon

package props

import (
	"fmt"
	"math/big"
	"testing"

	"verifharness/ref"
	"verifharness/stats"
)

// ---------------------------------------------------------------------------
// exhaustive small scope: InsertionProof gadget over tiny prime fields in the
// test engine — every assignment at depth 1 / batch 1, and (thorough) at
// depth 1 / batch 2 over GF(5).

type c01Tiny struct {
	P     int64     `json:"p"`
	Depth int       `json:"depth"`
	Start int64     `json:"start"`
	Pre   int64     `json:"pre"`
	Ids   []int64   `json:"ids"`
	Sibs  [][]int64 `json:"sibs"`
	Post  int64     `json:"post"`
}

func runC01Tiny(c c01Tiny) Result {
	p := big.NewInt(c.P)
	h, err := tinyH2(p)
	if err != nil {
		return bad("tiny", "harness:tiny-poseidon", "%v", err)
	}
	w := &ref.InsWitness{Depth: c.Depth, Batch: len(c.Ids), Start: big.NewInt(c.Start), Pre: big.NewInt(c.Pre), Post: big.NewInt(c.Post)}
	for i := range c.Ids {
		w.Ids = append(w.Ids, big.NewInt(c.Ids[i]))
		row := []*big.Int{}
		for _, s := range c.Sibs[i] {
			row = append(row, big.NewInt(s))
		}
		w.Paths = append(w.Paths, row)
	}
	reason := ref.RIns(p, h, w)
	relOK := reason == ""
	regime := "in-tree"
	if c.Start+int64(len(c.Ids))-1 >= 1<<uint(c.Depth) {
		regime = "runs-off-tree"
	}
	class := fmt.Sprintf("tiny-e1/p=%d/depth=%d/batch=%d/%s/%v", c.P, c.Depth, len(c.Ids), regime, relOK)
	errG := e1InsGadget(w, p)
	if (errG == nil) != relOK {
		return bad(class, sigAccept("InsertionProof(tiny)", errG == nil, reason, regime), "p=%d start=%d pre=%d ids=%v sibs=%v post=%d: accepted=%v, relation says %q", c.P, c.Start, c.Pre, c.Ids, c.Sibs, c.Post, errG == nil, reason)
	}
	return ok(class, true)
}

func init() { registerReplay("TestC01_TinyE1", runC01Tiny) }

func TestC01_TinyE1(t *testing.T) {
	col := stats.New("C01", "TestC01_TinyE1")
	defer col.Flush()
	col.SetExhaustive(true)
	primes := []int64{5, 7}
	if Thorough() {
		primes = []int64{5, 7, 11, 13}
	}
	shard, nsh := Shard(), NShards()
	runTinyEnum(t, col, "C01", "TestC01_TinyE1", runC01Tiny, func(yield func(c01Tiny) bool) {
		n := 0
		for _, p := range primes {
			for start := int64(0); start < p; start++ {
				for pre := int64(0); pre < p; pre++ {
					n++
					if n%nsh != shard {
						continue
					}
					for id := int64(0); id < p; id++ {
						for sib := int64(0); sib < p; sib++ {
							for post := int64(0); post < p; post++ {
								if !yield(c01Tiny{P: p, Depth: 1, Start: start, Pre: pre, Ids: []int64{id}, Sibs: [][]int64{{sib}}, Post: post}) {
									return
								}
							}
						}
					}
				}
			}
		}
		if !Thorough() {
			return
		}
		// depth 1, batch 2 over GF(5): all 5^7 assignments
		p := int64(5)
		for start := int64(0); start < p; start++ {
			for pre := int64(0); pre < p; pre++ {
				n++
				if n%nsh != shard {
					continue
				}
				for id0 := int64(0); id0 < p; id0++ {
					for id1 := int64(0); id1 < p; id1++ {
						for s0 := int64(0); s0 < p; s0++ {
							for s1 := int64(0); s1 < p; s1++ {
								for post := int64(0); post < p; post++ {
									if !yield(c01Tiny{P: p, Depth: 1, Start: start, Pre: pre, Ids: []int64{id0, id1}, Sibs: [][]int64{{s0}, {s1}}, Post: post}) {
										return
									}
								}
							}
						}
					}
				}
			}
		}
	})
}
