package props

import (
	"math/big"

	"github.com/consensys/gnark/frontend"

	"pgregory.net/rapid"

	"verifharness/ref"
)

// Shared rapid generators. Every random choice in the harness goes through
// these (or other rapid generators), never through math/rand.

func genBytes(t *rapid.T, n int, label string) []byte {
	return rapid.SliceOfN(rapid.Byte(), n, n).Draw(t, label)
}

// genBelow draws a uniform-ish integer in [0, bound) (bound > 0).
func genBelow(t *rapid.T, bound *big.Int, label string) *big.Int {
	n := (bound.BitLen() + 7) / 8
	b := genBytes(t, n+8, label)
	v := new(big.Int).SetBytes(b)
	return v.Mod(v, bound)
}

// genField draws a field element of BN254's scalar field, biased to edges.
func genField(t *rapid.T, label string) *big.Int {
	switch rapid.IntRange(0, 9).Draw(t, label+"_kind") {
	case 0:
		return edgeField(t, label)
	case 1:
		// by byte length: values with leading zero bytes
		n := rapid.IntRange(0, 32).Draw(t, label+"_len")
		v := new(big.Int).SetBytes(genBytes(t, n, label+"_b"))
		return v.Mod(v, ref.R)
	case 2:
		return big.NewInt(int64(rapid.IntRange(0, 300).Draw(t, label+"_small")))
	default:
		return genBelow(t, ref.R, label)
	}
}

func edgeField(t *rapid.T, label string) *big.Int {
	r := ref.R
	k := rapid.IntRange(0, 253).Draw(t, label+"_k")
	choices := []*big.Int{
		big.NewInt(0), big.NewInt(1), big.NewInt(2),
		new(big.Int).Sub(r, big.NewInt(1)), new(big.Int).Sub(r, big.NewInt(2)),
		new(big.Int).Rsh(new(big.Int).Sub(r, big.NewInt(1)), 1),
		ref.Pow2(k), new(big.Int).Sub(ref.Pow2(k), big.NewInt(1)),
	}
	return ref.Clone(choices[rapid.IntRange(0, len(choices)-1).Draw(t, label+"_edge")])
}

// genNonZeroField draws a non-zero field element.
func genNonZeroField(t *rapid.T, label string) *big.Int {
	v := genField(t, label)
	if v.Sign() == 0 {
		return big.NewInt(1)
	}
	return v
}

func pick[T any](t *rapid.T, label string, xs ...T) T {
	return xs[rapid.IntRange(0, len(xs)-1).Draw(t, label)]
}

func addMod(v *big.Int, d int64) *big.Int {
	x := new(big.Int).Add(v, big.NewInt(d))
	return x.Mod(x, ref.R)
}

func errStr(err error) string {
	if err == nil {
		return ""
	}
	s := err.Error()
	if len(s) > 160 {
		s = s[:160]
	}
	return s
}

func intsToVars(d []int) []frontend.Variable {
	o := make([]frontend.Variable, len(d))
	for i := range d {
		o[i] = d[i]
	}
	return o
}

func toVars(d []*big.Int) []frontend.Variable {
	o := make([]frontend.Variable, len(d))
	for i := range d {
		o[i] = d[i]
	}
	return o
}

func digitsOf(v *big.Int, n int) []*big.Int {
	d := make([]*big.Int, n)
	for i := range d {
		d[i] = big.NewInt(int64(v.Bit(i)))
	}
	return d
}

// arrange is the specified output of the decomposition: big-endian bytes of
// v at width n/8, bits least-significant first inside each byte.
func arrange(v *big.Int, n int) []int {
	buf := make([]byte, n/8)
	new(big.Int).And(v, new(big.Int).Sub(ref.Pow2(n), big.NewInt(1))).FillBytes(buf)
	return ref.BytesToBitsLSB(buf)
}
