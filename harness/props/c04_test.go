//go:build g_keccak

package props

import (
	"fmt"
	"sync"
	"testing"

	"github.com/consensys/gnark/frontend"
	"pgregory.net/rapid"

	"verifharness/ref"
	"verifharness/stats"
)

// C04 — in-circuit Keccak-256 / SHA3-256 equal the standard functions on every message.

type c04Case struct {
	Engine  string `json:"engine"` // e1 | e2
	Domain  int    `json:"domain"` // 1 = Keccak-256 (Ethereum padding), 6 = SHA3-256
	Content string `json:"content"`
	Msg     []byte `json:"msg"`
	Neg     string `json:"neg"`    // "" | outbit | otherdomain | msgbit
	NegPos  int    `json:"negPos"` // bit position for outbit / msgbit
}

func digestFor(domain int, msg []byte) []byte {
	if domain == 6 {
		return ref.SHA3256(msg)
	}
	return ref.Keccak256(msg)
}

var (
	c04mu       sync.Mutex
	c04compiled = map[string]*Compiled{}
)

func c04Compile(l, domain int) (*Compiled, error) {
	c04mu.Lock()
	defer c04mu.Unlock()
	key := fmt.Sprintf("%d/%d", l, domain)
	if c, okk := c04compiled[key]; okk {
		return c, nil
	}
	c, err := CompileBN254(&KeccakCircuit{In: vars(8 * l), Domain: domain})
	if err != nil {
		return nil, err
	}
	c04compiled[key] = c
	return c, nil
}

func runC04(c c04Case) Result {
	l := len(c.Msg)
	blocks := (l + 1 + 135) / 136
	class := fmt.Sprintf("%s/d%d/blocks=%d", c.Engine, c.Domain, blocks)
	if c.Neg != "" {
		class += "/neg-" + c.Neg
	}
	out := digestFor(c.Domain, c.Msg)
	want := true
	switch c.Neg {
	case "outbit":
		out = append([]byte(nil), out...)
		out[(c.NegPos/8)%32] ^= 1 << uint(c.NegPos%8)
		want = false
	case "otherdomain":
		out = digestFor(7-c.Domain, c.Msg)
		want = false
	case "msgbit":
		if l == 0 {
			out = digestFor(c.Domain, []byte{0})
		} else {
			m2 := append([]byte(nil), c.Msg...)
			m2[(c.NegPos/8)%l] ^= 1 << uint(c.NegPos%8)
			out = digestFor(c.Domain, m2)
		}
		want = false
	}
	assign := &KeccakCircuit{In: intsToVars(ref.BytesToBitsLSB(c.Msg)), Domain: c.Domain}
	for i, b := range ref.BytesToBitsLSB(out) {
		assign.Out[i] = b
	}
	var got bool
	var detail string
	if c.Engine == "e2" {
		cc, err := c04Compile(l, c.Domain)
		if err != nil {
			return bad(class, "harness:compile", "%v", err)
		}
		r := cc.Solve(assign, nil)
		if r.Inconsist {
			return bad(class, "harness:solver-evaluator-disagree", "solver accepted but evaluator found an unsatisfied constraint")
		}
		got, detail = r.Accept, errStr(r.SolverErr)
	} else {
		err := E1(&KeccakCircuit{In: vars(8 * l), Domain: c.Domain}, assign, ref.R)
		got, detail = err == nil, errStr(err)
	}
	if got != want {
		sig := "Keccak:standard-digest-rejected"
		if got {
			sig = "Keccak:wrong-digest-accepted"
		}
		return bad(class, fmt.Sprintf("%s:d%d:len%%136=%d", sig, c.Domain, l%136), "domain %#x, %d-byte %s message, neg=%q: accepted=%v, want %v (%s)", c.Domain, l, c.Content, c.Neg, got, want, detail)
	}
	uniform := true
	for _, b := range c.Msg {
		if b != c.Msg[0] {
			uniform = false
		}
	}
	nontrivial := c.Neg != "" || (l > 1 && !(l == 136 && uniform))
	return ok(class, nontrivial)
}

func c04Content(kind string, l, salt int) []byte {
	m := make([]byte, l)
	switch kind {
	case "zeros":
	case "ones":
		for i := range m {
			m[i] = 0xff
		}
	case "index":
		for i := range m {
			m[i] = byte(i*7 + salt)
		}
	case "singlebit":
		if l > 0 {
			m[salt%l] = 1 << uint(salt%8)
		}
	case "last80":
		for i := range m {
			m[i] = byte(i + salt)
		}
		if l > 0 {
			m[l-1] = 0x80
		}
	case "last01":
		for i := range m {
			m[i] = byte(3*i + salt)
		}
		if l > 0 {
			m[l-1] = 0x01
		}
	case "last06":
		if l > 0 {
			m[l-1] = 0x06
		}
	}
	return m
}

var c04Kinds = []string{"zeros", "ones", "index", "singlebit", "last80", "last01", "last06"}

func c04Lengths() []int {
	if Thorough() {
		ls := []int{}
		for l := 0; l <= 4*136+8; l++ {
			ls = append(ls, l)
		}
		return append(ls, 1000)
	}
	ls := []int{0, 1, 2, 31, 32, 33, 55, 56, 134, 135, 136, 137, 138, 270, 271, 272, 273, 274, 406, 407, 408, 409, 410, 543, 544, 545}
	for b := 1; b <= 16; b++ {
		ls = append(ls, 68+32*b, 64+4*b)
	}
	return append(ls, 100)
}

// TestC04_Lengths enumerates lengths x domains with deterministic contents
// (thorough: every length 0..552, i.e. every residue mod 136 in 1..5 blocks).
func TestC04_Lengths(t *testing.T) {
	col := stats.New("C04", "TestC04_Lengths")
	defer col.Flush()
	col.SetExhaustive(Thorough())
	shard, nsh := Shard(), NShards()
	negs := []string{"outbit", "otherdomain", "msgbit"}
	RunEnum(t, col, "C04", "TestC04_Lengths", func(yield func(c04Case) bool) {
		for li, l := range c04Lengths() {
			if li%nsh != shard {
				continue
			}
			for _, d := range []int{1, 6} {
				k2 := c04Kinds[(l+d)%len(c04Kinds)]
				if k2 == "index" {
					k2 = "ones"
				}
				for _, kind := range []string{"index", k2} {
					if !yield(c04Case{Engine: "e1", Domain: d, Content: kind, Msg: c04Content(kind, l, l+d)}) {
						return
					}
				}
				if !yield(c04Case{Engine: "e1", Domain: d, Content: "index", Msg: c04Content("index", l, l), Neg: negs[(l+d)%3], NegPos: l*13 + d}) {
					return
				}
			}
		}
	}, runC04)
}

func genC04(t *rapid.T) c04Case {
	c := c04Case{Engine: "e1", Domain: pick(t, "domain", 1, 6)}
	maxL := 600
	e2Lens := []int{0, 1, 72, 132, 135, 136, 137}
	if Thorough() {
		maxL = 1200
		e2Lens = append(e2Lens, 164, 271, 272, 273, 408)
	}
	var l int
	switch rapid.IntRange(0, 4).Draw(t, "lk") {
	case 0:
		l = pick(t, "boundary", 0, 1, 134, 135, 136, 137, 138, 270, 271, 272, 273, 407, 408, 409)
	case 1:
		b := rapid.IntRange(1, 16).Draw(t, "batch")
		l = pick(t, "prod", 68+32*b, 64+4*b)
	case 2:
		c.Engine = "e2"
		l = pick(t, "e2len", e2Lens...)
	default:
		l = rapid.IntRange(0, maxL).Draw(t, "len")
	}
	c.Content = pick(t, "content", "random", "random", "zeros", "ones", "singlebit", "last80", "last01", "last06")
	if c.Content == "random" {
		c.Msg = genBytes(t, l, "msg")
	} else {
		c.Msg = c04Content(c.Content, l, rapid.IntRange(0, 1<<20).Draw(t, "salt"))
	}
	c.Neg = pick(t, "neg", "", "", "outbit", "otherdomain", "msgbit")
	c.NegPos = rapid.IntRange(0, 1<<16).Draw(t, "negpos")
	return c
}

func init() {
	registerReplay("TestC04_Lengths", runC04)
	registerReplay("TestC04_Rapid", runC04)
}

func TestC04_Rapid(t *testing.T) {
	RunRapid(t, Check[c04Case]{Prop: "C04", Test: "TestC04_Rapid", Gen: genC04, Run: runC04})
}

var _ frontend.Circuit = (*KeccakCircuit)(nil)
