//go:build g_poseidon

package props

import (
	"fmt"
	"math/big"
	"sync"

	"github.com/consensys/gnark/frontend"

	"worldcoin/gnark-mbu/prover/poseidon"

	"verifharness/ref"
)

// Reference two-input Poseidon over a tiny prime field: the generic
// implementation in harness/ref instantiated with the repository's tables
// reduced mod p. The same construction on BN254 is checked against iden3
// (own tables) before use, so it is not an echo of the gadget's control flow
// and a corrupted table is caught by that comparison (and by C05).

func tableToBig(tb [][]frontend.Variable, p *big.Int) [][]*big.Int {
	o := make([][]*big.Int, len(tb))
	for i := range tb {
		o[i] = make([]*big.Int, len(tb[i]))
		for j := range tb[i] {
			switch v := tb[i][j].(type) {
			case big.Int:
				o[i][j] = new(big.Int).Mod(&v, p)
			case *big.Int:
				o[i][j] = new(big.Int).Mod(v, p)
			default:
				panic(fmt.Sprintf("unexpected constant type %T", v))
			}
		}
	}
	return o
}

var (
	tinyHashMu sync.Mutex
	tinyHashes = map[string]func(a, b *big.Int) *big.Int{}
	tinySelf   error
	tinyOnce   sync.Once
)

func genericPoseidon3(p *big.Int) *ref.GenericPoseidon {
	return &ref.GenericPoseidon{P: p, RF: 8, RP: 57, C: tableToBig(poseidon.CONSTANTS_3, p), M: tableToBig(poseidon.MDS_3, p)}
}

// tinyH2 returns the memoised reference hash over the field of order p.
func tinyH2(p *big.Int) (func(a, b *big.Int) *big.Int, error) {
	tinyOnce.Do(func() {
		g := genericPoseidon3(ref.R)
		for _, pr := range [][2]*big.Int{{big.NewInt(0), big.NewInt(0)}, {big.NewInt(1), big.NewInt(2)}, {new(big.Int).Sub(ref.R, big.NewInt(1)), big.NewInt(31213)}} {
			if g.Hash(pr[0], pr[1]).Cmp(ref.H2(pr[0], pr[1])) != 0 {
				tinySelf = fmt.Errorf("generic Poseidon with the repository's tables disagrees with iden3 on BN254 for (%s,%s)", pr[0], pr[1])
			}
		}
	})
	if tinySelf != nil {
		return nil, tinySelf
	}
	tinyHashMu.Lock()
	defer tinyHashMu.Unlock()
	if h, okk := tinyHashes[p.String()]; okk {
		return h, nil
	}
	g := genericPoseidon3(p)
	memo := map[[2]int64]*big.Int{}
	var mu sync.Mutex
	h := func(a, b *big.Int) *big.Int {
		k := [2]int64{a.Int64(), b.Int64()}
		mu.Lock()
		defer mu.Unlock()
		if v, okk := memo[k]; okk {
			return v
		}
		v := g.Hash(a, b)
		memo[k] = v
		return v
	}
	tinyHashes[p.String()] = h
	return h, nil
}
