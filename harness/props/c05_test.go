//go:build g_poseidon

package props

import (
	"math/big"
	"sync"
	"testing"

	"github.com/consensys/gnark/frontend"
	"pgregory.net/rapid"

	"verifharness/ref"
)

// C05 — in-circuit Poseidon equals the reference Poseidon.

type c05Case struct {
	Kind    string   `json:"kind"`   // p1 | p2 | chain | swap
	Engine  string   `json:"engine"` // e1 | e2
	A       *big.Int `json:"a"`
	B       *big.Int `json:"b,omitempty"`
	Delta   int64    `json:"delta"`   // added to the presented output (0 = correct output)
	DeltaAt int      `json:"deltaAt"` // chain: which output is perturbed
}

var (
	c05once sync.Once
	c05p1   *Compiled
	c05p2   *Compiled
	c05ch   *Compiled
	c05err  error
)

func c05Compile() error {
	c05once.Do(func() {
		if c05p1, c05err = CompileBN254(&Pos1Circuit{}); c05err != nil {
			return
		}
		if c05p2, c05err = CompileBN254(&Pos2Circuit{}); c05err != nil {
			return
		}
		c05ch, c05err = CompileBN254(&PosChainCircuit{})
	})
	return c05err
}

func genC05(t *rapid.T) c05Case {
	c := c05Case{
		Kind:   pick(t, "kind", "p1", "p2", "p2", "chain", "swap"),
		Engine: pick(t, "engine", "e1", "e2"),
		A:      genField(t, "a"),
		B:      genField(t, "b"),
	}
	if rapid.IntRange(0, 2).Draw(t, "neg") == 0 {
		c.Delta = pick(t, "delta", int64(1), -1, 2, 1<<32)
		c.DeltaAt = rapid.IntRange(0, 7).Draw(t, "at")
	}
	return c
}

func c05Literal(c c05Case) bool {
	if c.Delta != 0 {
		return false
	}
	switch c.Kind {
	case "p1":
		return c.A.Sign() == 0
	case "p2":
		return (c.A.Sign() == 0 && c.B.Sign() == 0) || (c.A.Cmp(big.NewInt(31213)) == 0 && c.B.Cmp(big.NewInt(132)) == 0)
	}
	return false
}

func runC05(c c05Case) Result {
	class := c.Kind + "/" + c.Engine
	if c.Delta != 0 {
		class += "/wrong-output"
	}
	if c.Engine == "e2" {
		if err := c05Compile(); err != nil {
			return bad(class, "harness:compile", "%v", err)
		}
	}
	var circuit, assign frontend.Circuit
	var compiled *Compiled
	switch c.Kind {
	case "p1":
		circuit, assign, compiled = &Pos1Circuit{}, &Pos1Circuit{A: c.A, Out: addMod(ref.H1(c.A), c.Delta)}, c05p1
	case "p2":
		circuit, assign, compiled = &Pos2Circuit{}, &Pos2Circuit{A: c.A, B: c.B, Out: addMod(ref.H2(c.A, c.B), c.Delta)}, c05p2
	case "swap":
		// Poseidon2(a,b) presented with the reference hash of (b,a): accepted only when they coincide
		circuit, assign, compiled = &Pos2Circuit{}, &Pos2Circuit{A: c.A, B: c.B, Out: addMod(ref.H2(c.B, c.A), c.Delta)}, c05p2
	case "chain":
		h0 := ref.H2(c.A, c.B)
		h1 := ref.H1(h0)
		h2 := ref.H2(h1, c.A)
		h3 := ref.H2(c.B, h2)
		h4 := ref.H1(c.A)
		h5 := ref.H2(h4, h3)
		outs := []*big.Int{h0, h1, h2, h3, h4, h5, ref.H2(c.A, c.B), ref.H2(c.A, c.A)}
		a := &PosChainCircuit{A: c.A, B: c.B}
		for i := range outs {
			if i == c.DeltaAt {
				a.Out[i] = addMod(outs[i], c.Delta)
			} else {
				a.Out[i] = outs[i]
			}
		}
		circuit, assign, compiled = &PosChainCircuit{}, a, c05ch
	default:
		return bad(class, "harness:unknown-kind", "unknown kind")
	}
	want := c.Delta == 0
	if c.Kind == "swap" {
		want = addMod(ref.H2(c.B, c.A), c.Delta).Cmp(ref.H2(c.A, c.B)) == 0
	}
	var got bool
	var detail string
	if c.Engine == "e1" {
		err := E1(circuit, assign, ref.R)
		got, detail = err == nil, errStr(err)
	} else {
		r := compiled.Solve(assign, nil)
		if r.Inconsist {
			return bad(class, "harness:solver-evaluator-disagree", "solver accepted but evaluator found an unsatisfied constraint")
		}
		got, detail = r.Accept, errStr(r.SolverErr)
	}
	if got != want {
		sig := "Poseidon:reference-output-rejected"
		if got {
			sig = "Poseidon:wrong-output-accepted"
		}
		return bad(class, sig+":"+c.Kind, "%s(%s,%s) delta=%d at %d: accepted=%v, want %v (%s)", c.Kind, c.A, c.B, c.Delta, c.DeltaAt, got, want, detail)
	}
	return ok(class, !c05Literal(c))
}

func init() { registerReplay("TestC05_Poseidon", runC05) }

func TestC05_Poseidon(t *testing.T) {
	if err := ref.SelfCheck(); err != nil {
		t.Fatal(err)
	}
	RunRapid(t, Check[c05Case]{Prop: "C05", Test: "TestC05_Poseidon", Gen: genC05, Run: runC05})
}
