package props

import (
	"fmt"
	"math/big"
	"sort"

	"github.com/consensys/gnark-crypto/ecc"
	"github.com/consensys/gnark-crypto/ecc/bn254/fr"
	"github.com/consensys/gnark/backend"
	"github.com/consensys/gnark/backend/hint"
	"github.com/consensys/gnark/constraint"
	cs "github.com/consensys/gnark/constraint/bn254"
	"github.com/consensys/gnark/frontend"
	"github.com/consensys/gnark/frontend/cs/r1cs"
	"github.com/consensys/gnark/std/math/bits"
	"github.com/consensys/gnark/test"

	"verifharness/ref"
)

// ---------------------------------------------------------------------------
// E1: gnark's test engine (honest prover, any prime field, no compilation)

// E1 runs Define over big.Int in the given field. It returns nil when every
// assertion holds. Never call it concurrently within one process.
func E1(circuit, assignment frontend.Circuit, field *big.Int) (err error) {
	defer func() {
		if r := recover(); r != nil {
			err = fmt.Errorf("panic: %v", r)
		}
	}()
	return test.IsSolved(circuit, assignment, field)
}

// ---------------------------------------------------------------------------
// E2: compiled R1CS over BN254 solved with harness-supplied hint functions

var (
	idNBits   = hint.UUID(bits.NBits)
	idInvZero = hint.UUID(hint.InvZero)
)

// HintStrategy describes what a (possibly dishonest) prover answers for the
// values it computes for itself. It is a pure function of (hint, number of
// outputs, input value), so the solver's scheduling cannot influence it.
type HintStrategy struct {
	NB         string     `json:"nb,omitempty"`         // honest | plus_kr | flip | digit2 | other | zero | ones
	K          int        `json:"k,omitempty"`          // multiple of r for plus_kr
	J          int        `json:"j,omitempty"`          // bit position for flip / digit2
	N          int        `json:"n,omitempty"`          // only decompositions with N outputs (0 = all)
	OnlyValue  *big.Int   `json:"onlyValue,omitempty"`  // only when the decomposed value equals this
	OnlyValues []*big.Int `json:"onlyValues,omitempty"` // only when the decomposed value is one of these
	Other      *big.Int   `json:"other,omitempty"`      // value whose bits are answered for "other"
	Digits     []*big.Int `json:"digits,omitempty"`     // explicit digits answered for "digits" (may be non-boolean)
	IZ         string     `json:"iz,omitempty"`         // honest | zero | one | invplus1 | value
	IZValue    *big.Int   `json:"izValue,omitempty"`
}

func (s *HintStrategy) Honest() bool {
	return s == nil || ((s.NB == "" || s.NB == "honest") && (s.IZ == "" || s.IZ == "honest"))
}

func (s *HintStrategy) String() string {
	if s.Honest() {
		return "honest"
	}
	return fmt.Sprintf("nb=%s/iz=%s", s.NB, s.IZ)
}

func (s *HintStrategy) nbits(field *big.Int, inputs, outputs []*big.Int) error {
	if err := bits.NBits(field, inputs, outputs); err != nil {
		return err
	}
	if s == nil || s.NB == "" || s.NB == "honest" {
		return nil
	}
	n := len(outputs)
	if s.N > 0 && s.N != n {
		return nil
	}
	if s.N < 0 && -s.N == n { // negative N: every width except -N
		return nil
	}
	v := inputs[0]
	if s.OnlyValue != nil && s.OnlyValue.Cmp(v) != 0 {
		return nil
	}
	if len(s.OnlyValues) > 0 {
		found := false
		for _, ov := range s.OnlyValues {
			if ov.Cmp(v) == 0 {
				found = true
			}
		}
		if !found {
			return nil
		}
	}
	setBits := func(x *big.Int) {
		for i := 0; i < n; i++ {
			outputs[i].SetUint64(uint64(x.Bit(i)))
		}
	}
	switch s.NB {
	case "plus_kr":
		x := new(big.Int).Mul(field, big.NewInt(int64(s.K)))
		x.Add(x, v)
		if x.BitLen() <= n {
			setBits(x)
		}
	case "flip":
		if s.J < n {
			outputs[s.J].SetUint64(1 - outputs[s.J].Uint64())
		}
	case "digit2":
		// same weighted sum, non-boolean digits: digit j += 2, digit j+1 -= 1
		if s.J+1 < n {
			outputs[s.J].Add(outputs[s.J], big.NewInt(2))
			outputs[s.J+1].Sub(outputs[s.J+1], big.NewInt(1))
			outputs[s.J+1].Mod(outputs[s.J+1], field)
		}
	case "other":
		if s.Other != nil {
			setBits(s.Other)
		}
	case "digits":
		for i := 0; i < n && i < len(s.Digits); i++ {
			outputs[i].Mod(s.Digits[i], field)
		}
	case "zero":
		setBits(big.NewInt(0))
	case "ones":
		setBits(new(big.Int).Sub(ref.Pow2(n), big.NewInt(1)))
	}
	return nil
}

func (s *HintStrategy) invzero(field *big.Int, inputs, outputs []*big.Int) error {
	if err := hint.InvZero(field, inputs, outputs); err != nil {
		return err
	}
	if s == nil {
		return nil
	}
	switch s.IZ {
	case "zero":
		outputs[0].SetUint64(0)
	case "one":
		outputs[0].SetUint64(1)
	case "invplus1":
		outputs[0].Add(outputs[0], big.NewInt(1))
		outputs[0].Mod(outputs[0], field)
	case "value":
		if s.IZValue != nil {
			outputs[0].Mod(s.IZValue, field)
		}
	}
	return nil
}

// Compiled is a compiled BN254 R1CS plus its structural scan.
type Compiled struct {
	R1CS        *cs.R1CS
	NbPublic    int // without the constant wire
	NbSecret    int
	HintCalls   map[string]int
	NonOWires   int // internal non-hint wires that are not defined on the O side of exactly one constraint
	Constraints int
}

func CompileBN254(circuit frontend.Circuit) (*Compiled, error) {
	ccs, err := frontend.Compile(ecc.BN254.ScalarField(), r1cs.NewBuilder, circuit)
	if err != nil {
		return nil, err
	}
	return WrapR1CS(ccs)
}

func WrapR1CS(ccs constraint.ConstraintSystem) (*Compiled, error) {
	r, okk := ccs.(*cs.R1CS)
	if !okk {
		return nil, fmt.Errorf("unexpected constraint system type %T", ccs)
	}
	c := &Compiled{R1CS: r, NbPublic: len(r.Public) - 1, NbSecret: len(r.Secret), HintCalls: map[string]int{}, Constraints: len(r.Constraints)}
	// structural scan: which wires can a prover choose freely?
	seenHint := map[*constraint.Hint]bool{}
	for _, h := range r.MHints {
		if !seenHint[h] {
			seenHint[h] = true
			c.HintCalls[hint.Name(hintFn(h.ID))]++
		}
	}
	nIn := len(r.Public) + len(r.Secret)
	defined := make([]bool, nIn+r.NbInternalVariables)
	for i := 0; i < nIn; i++ {
		defined[i] = true
	}
	for w := range r.MHints {
		defined[w] = true
	}
	for _, con := range r.Constraints {
		// the solver instantiates the first not-yet-defined wire it meets; record on which side
		side := 0
		var wire int
		for si, le := range []constraint.LinearExpression{con.L, con.R, con.O} {
			for _, t := range le {
				if t.IsConstant() {
					continue
				}
				if !defined[t.WireID()] && side == 0 {
					side = si + 1
					wire = t.WireID()
				}
			}
		}
		if side != 0 {
			defined[wire] = true
			if side != 3 {
				c.NonOWires++
			}
		}
	}
	return c, nil
}

func hintFn(id hint.ID) hint.Function {
	switch id {
	case idNBits:
		return bits.NBits
	case idInvZero:
		return hint.InvZero
	}
	return func(*big.Int, []*big.Int, []*big.Int) error { return nil }
}

type SolveResult struct {
	Accept     bool
	SolverErr  error
	EvalOK     bool // independent evaluator: every constraint satisfied on the returned wires
	Inconsist  bool // solver and evaluator disagree (harness/gnark inconsistency, not a verdict)
	HintNonStd bool // the strategy actually changed at least one hint output
}

// Solve runs the compiled system on the assignment with the given strategy.
func (c *Compiled) Solve(assignment frontend.Circuit, strat *HintStrategy) (res SolveResult) {
	w, err := frontend.NewWitness(assignment, ecc.BN254.ScalarField())
	if err != nil {
		res.SolverErr = fmt.Errorf("witness: %w", err)
		return
	}
	vec, okk := w.Vector().(fr.Vector)
	if !okk {
		res.SolverErr = fmt.Errorf("witness vector type %T", w.Vector())
		return
	}
	return c.SolveVector(vec, strat)
}

func (c *Compiled) SolveVector(vec fr.Vector, strat *HintStrategy) (res SolveResult) {
	cfg, err := backend.NewProverConfig()
	if err != nil {
		res.SolverErr = err
		return
	}
	changed := false
	cfg.HintFunctions[idNBits] = func(f *big.Int, in, out []*big.Int) error {
		e := strat.nbits(f, in, out)
		if !strat.Honest() {
			honest := make([]*big.Int, len(out))
			for i := range honest {
				honest[i] = new(big.Int)
			}
			bits.NBits(f, in, honest)
			for i := range out {
				if out[i].Cmp(honest[i]) != 0 {
					changed = true
				}
			}
		}
		return e
	}
	cfg.HintFunctions[idInvZero] = func(f *big.Int, in, out []*big.Int) error {
		e := strat.invzero(f, in, out)
		if !strat.Honest() {
			h := []*big.Int{new(big.Int)}
			hint.InvZero(f, in, h)
			if h[0].Cmp(out[0]) != 0 {
				changed = true
			}
		}
		return e
	}
	n := len(c.R1CS.Constraints)
	a, b, cc := make(fr.Vector, n), make(fr.Vector, n), make(fr.Vector, n)
	var wires fr.Vector
	func() {
		defer func() {
			if r := recover(); r != nil {
				res.SolverErr = fmt.Errorf("solver panic: %v", r)
			}
		}()
		wires, res.SolverErr = c.R1CS.Solve(vec, a, b, cc, cfg)
	}()
	res.HintNonStd = changed
	if res.SolverErr != nil {
		return
	}
	res.EvalOK = c.evaluate(wires)
	res.Accept = res.EvalOK
	res.Inconsist = !res.EvalOK
	return
}

// evaluate recomputes L·R = O for every constraint from the wire vector,
// independently of the solver.
func (c *Compiled) evaluate(wires fr.Vector) bool {
	r := c.R1CS
	lin := func(le constraint.LinearExpression) fr.Element {
		var acc fr.Element
		for _, t := range le {
			var v fr.Element
			if t.IsConstant() {
				v = r.Coefficients[t.CoeffID()]
			} else {
				v.Mul(&r.Coefficients[t.CoeffID()], &wires[t.WireID()])
			}
			acc.Add(&acc, &v)
		}
		return acc
	}
	for _, con := range r.Constraints {
		l, rr, o := lin(con.L), lin(con.R), lin(con.O)
		var p fr.Element
		p.Mul(&l, &rr)
		if !p.Equal(&o) {
			return false
		}
	}
	return true
}

// ---------------------------------------------------------------------------
// E2t: compiled R1CS over gnark's 47-element tinyfield. The wire vector type
// is internal to gnark there, so the verdict is the system's own IsSolved with
// the hint table replaced through an ordinary backend.ProverOption.

var TinyP = big.NewInt(47)

type TinyCompiled struct {
	ccs constraint.ConstraintSystem
}

func CompileTiny(circuit frontend.Circuit) (*TinyCompiled, error) {
	ccs, err := frontend.Compile(TinyP, r1cs.NewBuilder, circuit)
	if err != nil {
		return nil, err
	}
	return &TinyCompiled{ccs}, nil
}

func (c *TinyCompiled) Solve(assignment frontend.Circuit, strat *HintStrategy) (accept bool, err error) {
	defer func() {
		if r := recover(); r != nil {
			accept, err = false, fmt.Errorf("panic: %v", r)
		}
	}()
	w, err := frontend.NewWitness(assignment, TinyP)
	if err != nil {
		return false, err
	}
	opt := func(cfg *backend.ProverConfig) error {
		cfg.HintFunctions[idNBits] = strat.nbits
		cfg.HintFunctions[idInvZero] = strat.invzero
		return nil
	}
	err = c.ccs.IsSolved(w, opt)
	return err == nil, err
}

func sortedKeys(m map[string]int) []string {
	ks := make([]string, 0, len(m))
	for k := range m {
		ks = append(ks, k)
	}
	sort.Strings(ks)
	return ks
}
