package props

import (
	"bytes"
	"context"
	"encoding/json"
	"fmt"
	"io"
	"math/big"
	"net"
	"net/http"
	"regexp"
	"sort"
	"strconv"
	"strings"
	"sync/atomic"
	"time"

	"worldcoin/gnark-mbu/prover"
	"worldcoin/gnark-mbu/server"
)

// E4: the code under test's HTTP server, run in-process on two free ports.

type testServer struct {
	job         server.RunningJob
	ProverAddr  string
	MetricsAddr string
	Mode        string
	PS          *prover.ProvingSystem
	client      *http.Client
}

func startServer(ps *prover.ProvingSystem, mode string) (*testServer, error) {
	return startServerAt(ps, mode, freeAddr(), freeAddr())
}

func startServerAt(ps *prover.ProvingSystem, mode, proverAddr, metricsAddr string) (*testServer, error) {
	s := &testServer{ProverAddr: proverAddr, MetricsAddr: metricsAddr, Mode: mode, PS: ps}
	s.client = newClient()
	cfg := server.Config{ProverAddress: proverAddr, MetricsAddress: metricsAddr, Mode: mode}
	s.job = server.Run(&cfg, ps)
	if err := s.waitReady(20 * time.Second); err != nil {
		return nil, err
	}
	return s, nil
}

func newClient() *http.Client {
	return &http.Client{Timeout: 300 * time.Second, Transport: &http.Transport{MaxIdleConnsPerHost: 64, DisableCompression: true, ExpectContinueTimeout: 2 * time.Second}}
}

func (s *testServer) waitReady(d time.Duration) error {
	deadline := time.Now().Add(d)
	for time.Now().Before(deadline) {
		okM, okP := false, false
		if c, err := net.DialTimeout("tcp", s.MetricsAddr, time.Second); err == nil {
			c.Close()
			okM = true
		}
		if c, err := net.DialTimeout("tcp", s.ProverAddr, time.Second); err == nil {
			c.Close()
			okP = true
		}
		if okM && okP {
			return nil
		}
		time.Sleep(5 * time.Millisecond)
	}
	return fmt.Errorf("server did not start listening on %s / %s", s.ProverAddr, s.MetricsAddr)
}

func (s *testServer) stop() {
	s.job.RequestStop()
	s.job.AwaitStop()
	s.client.CloseIdleConnections()
}

type httpResult struct {
	Status  int
	Body    []byte
	Err     string // transport-level error ("" = a complete response was received)
	Elapsed time.Duration
	Start   time.Time
	End     time.Time
}

func (s *testServer) do(method string, body []byte) httpResult {
	return doRequest(s.client, method, "http://"+s.ProverAddr+"/prove", body)
}

// doReq sends a generated request with its framing.
func (s *testServer) doReq(r genReq) httpResult {
	if r.Framing == "" {
		return doRequest(s.client, r.Method, "http://"+s.ProverAddr+"/prove"+r.Query, r.bytes())
	}
	t0 := time.Now()
	body := r.bytes()
	var rd io.Reader = bytes.NewReader(body)
	if r.Framing == "chunked" {
		rd = struct{ io.Reader }{rd} // hides the length: the client uses chunked transfer encoding
	}
	req, err := http.NewRequest(r.Method, "http://"+s.ProverAddr+"/prove"+r.Query, rd)
	if err != nil {
		return httpResult{Err: "harness:request: " + err.Error(), Start: t0, End: time.Now()}
	}
	req.Header.Set("Content-Type", "application/json")
	if r.Framing == "expect-continue" {
		req.Header.Set("Expect", "100-continue")
	}
	resp, err := s.client.Do(req)
	if err != nil {
		return httpResult{Err: err.Error(), Elapsed: time.Since(t0), Start: t0, End: time.Now()}
	}
	defer resp.Body.Close()
	b, err := io.ReadAll(resp.Body)
	res := httpResult{Status: resp.StatusCode, Body: b, Elapsed: time.Since(t0), Start: t0, End: time.Now()}
	if err != nil {
		res.Err = "reading body: " + err.Error()
	}
	return res
}

// doAbort sends a request and walks away after d (the client closes its connection, as a timed-out or killed client does).
func (s *testServer) doAbort(r genReq, d time.Duration) httpResult {
	ctx, cancel := context.WithTimeout(context.Background(), d)
	defer cancel()
	t0 := time.Now()
	req, err := http.NewRequestWithContext(ctx, r.Method, "http://"+s.ProverAddr+"/prove", bytes.NewReader(r.bytes()))
	if err != nil {
		return httpResult{Err: "harness:request: " + err.Error(), Start: t0, End: time.Now()}
	}
	req.Header.Set("Content-Type", "application/json")
	resp, err := s.client.Do(req)
	if err != nil {
		return httpResult{Err: err.Error(), Elapsed: time.Since(t0), Start: t0, End: time.Now()}
	}
	defer resp.Body.Close()
	b, err := io.ReadAll(resp.Body)
	res := httpResult{Status: resp.StatusCode, Body: b, Elapsed: time.Since(t0), Start: t0, End: time.Now()}
	if err != nil {
		res.Err = "reading body: " + err.Error()
	}
	return res
}

func doRequest(client *http.Client, method, url string, body []byte) httpResult {
	t0 := time.Now()
	req, err := http.NewRequest(method, url, bytes.NewReader(body))
	if err != nil {
		return httpResult{Err: "harness:request: " + err.Error(), Start: t0, End: time.Now()}
	}
	req.Header.Set("Content-Type", "application/json")
	resp, err := client.Do(req)
	if err != nil {
		return httpResult{Err: err.Error(), Elapsed: time.Since(t0), Start: t0, End: time.Now()}
	}
	defer resp.Body.Close()
	b, err := io.ReadAll(resp.Body)
	r := httpResult{Status: resp.StatusCode, Body: b, Elapsed: time.Since(t0), Start: t0, End: time.Now()}
	if err != nil {
		r.Err = "reading body: " + err.Error()
	}
	return r
}

// errorCode extracts the "code" of an error body; ok=false when the body is
// not the documented {"code":..,"message":..} JSON.
func errorCode(body []byte) (string, bool) {
	var d map[string]any
	if err := json.Unmarshal(body, &d); err != nil {
		return "", false
	}
	c, ok1 := d["code"].(string)
	_, ok2 := d["message"].(string)
	return c, ok1 && ok2
}

// proofVerifies decodes a 200 body with the harness's own reader and checks
// it against the system's verifying key and the request's input hash.
func proofVerifies(ps *prover.ProvingSystem, body []byte, hash *big.Int) error {
	c, err := parseProofJSON(bytes.TrimSpace(body))
	if err != nil {
		return fmt.Errorf("body is not a proof document: %v", err)
	}
	p, err := proofFromCoords(c)
	if err != nil {
		return err
	}
	return verifyIndependent(p, ps.VerifyingKey, hash)
}

// ---------------------------------------------------------------------------
// metrics scraping

var metricLine = regexp.MustCompile(`^([a-zA-Z_:][a-zA-Z0-9_:]*)(\{[^}]*\})?\s+([0-9eE+.\-]+|NaN|\+Inf)$`)
var labelPair = regexp.MustCompile(`([a-zA-Z_][a-zA-Z0-9_]*)="([^"]*)"`)

type scrape struct {
	Status   int
	Err      string
	Totals   map[string]float64 // "method/code" -> count for endpoint_pattern="/prove"
	InFlight float64
	HasGauge bool
	Elapsed  time.Duration
}

// scrapeMinTimeout is set by checks whose oracle reads /metrics for its CONTENT (C20): they never treat slowness as a verdict.
var scrapeMinTimeout atomic.Int64 // nanoseconds

func (s *testServer) scrape(timeout time.Duration) scrape {
	// A client-side time limit is never a verdict about the server (a loaded machine can delay an answer by many
	// seconds): every scrape is given minutes. Callers that look for a BLOCKED metrics endpoint do so while they hold the
	// blocking condition in place and compare with a control scrape.
	if m := time.Duration(scrapeMinTimeout.Load()); timeout < m {
		timeout = m
	}
	c := &http.Client{Timeout: timeout}
	r := doRequest(c, "GET", "http://"+s.MetricsAddr+"/metrics", nil)
	out := scrape{Status: r.Status, Err: r.Err, Totals: map[string]float64{}, Elapsed: r.Elapsed}
	if r.Err != "" || r.Status != 200 {
		return out
	}
	for _, line := range strings.Split(string(r.Body), "\n") {
		if line == "" || line[0] == '#' {
			continue
		}
		m := metricLine.FindStringSubmatch(line)
		if m == nil {
			continue
		}
		labels := map[string]string{}
		for _, lp := range labelPair.FindAllStringSubmatch(m[2], -1) {
			labels[lp[1]] = lp[2]
		}
		v, _ := strconv.ParseFloat(m[3], 64)
		if labels["endpoint_pattern"] != "/prove" {
			continue
		}
		switch m[1] {
		case "http_requests_total":
			out.Totals[labels["method"]+"/"+labels["code"]] += v
		case "http_requests_in_flight":
			out.InFlight, out.HasGauge = v, true
		}
	}
	return out
}

func fmtTally(m map[string]float64) string {
	ks := make([]string, 0, len(m))
	for k := range m {
		ks = append(ks, k)
	}
	sort.Strings(ks)
	var sb strings.Builder
	for _, k := range ks {
		fmt.Fprintf(&sb, "%s=%g ", k, m[k])
	}
	return sb.String()
}
