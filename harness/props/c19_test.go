package props

import (
	"bytes"
	"encoding/json"
	"fmt"
	"math/big"
	"os"
	"path/filepath"
	"strings"
	"sync"
	"testing"
	"time"

	"pgregory.net/rapid"

	"worldcoin/gnark-mbu/prover"

	"verifharness/ref"
	"verifharness/stats"
)

// C19 — the command-line pipeline composes and its exit status tells the truth.

type c19Case struct {
	Mode   string   `json:"mode"` // mode of the keys file in use
	Depth  int      `json:"depth"`
	Batch  int      `json:"batch"`
	Kind   string   `json:"kind"`
	Args   []string `json:"args"` // command line after the binary (file names are symbolic: $KEYS, $OTHER, $DIR)
	Stdin  string   `json:"stdin,omitempty"`
	Env    []string `json:"env,omitempty"`
	Expect string   `json:"expect"`         // exit0 | nonzero | verify-as-harness
	Hash   *big.Int `json:"hash,omitempty"` // verify: the supplied hash
	Params *mParams `json:"params,omitempty"`
	Note   string   `json:"note,omitempty"`
}

type c19Env struct {
	dir          string
	keys, other  string // keys file of the mode under test / of the other mode
	ps, otherPS  *prover.ProvingSystem
	mode         string
	depth        int
	batch        int
	truncated    string
	truncatedMid string
	empty        string
	rawConv      string
}

var (
	c19mu   sync.Mutex
	c19envs = map[string]*c19Env{}
)

// c19Setup runs the CLI 'setup' for both modes once per process and loads the
// resulting files (the keys the CLI itself produced are the keys under test).
func c19Setup(mode string, depth, batch int) (*c19Env, error) {
	c19mu.Lock()
	defer c19mu.Unlock()
	key := fmt.Sprintf("%s/%d/%d", mode, depth, batch)
	if e, okk := c19envs[key]; okk {
		return e, nil
	}
	dir, err := os.MkdirTemp(os.Getenv("VERIF_WORK"), "c19-")
	if err != nil {
		return nil, err
	}
	e := &c19Env{dir: dir, mode: mode, depth: depth, batch: batch, keys: filepath.Join(dir, "keys.ps"), other: filepath.Join(dir, "other.ps")}
	var wg sync.WaitGroup
	errs := make([]error, 2)
	for i, spec := range []struct{ mode, out string }{{mode, e.keys}, {otherMode(mode), e.other}} {
		wg.Add(1)
		go func(i int, m, out string) {
			defer wg.Done()
			d := depth
			if m == "deletion" && d > 31 {
				d = 31
			}
			r := runCLI(900*time.Second, nil, nil, "setup", "--mode", m, "--output", out, "--tree-depth", fmt.Sprint(d), "--batch-size", fmt.Sprint(batch))
			if r.ExitCode != 0 {
				errs[i] = fmt.Errorf("setup --mode %s exited %d: %s", m, r.ExitCode, tail(r.Stderr, 300))
			}
		}(i, spec.mode, spec.out)
	}
	wg.Wait()
	for _, er := range errs {
		if er != nil {
			return nil, er
		}
	}
	if e.ps, err = prover.ReadSystemFromFile(e.keys); err != nil {
		return nil, fmt.Errorf("keys written by 'setup' do not load: %v", err)
	}
	if e.otherPS, err = prover.ReadSystemFromFile(e.other); err != nil {
		return nil, err
	}
	if int(e.ps.TreeDepth) != depth || int(e.ps.BatchSize) != batch {
		return nil, fmt.Errorf("'setup' wrote depth %d batch %d, asked for %d %d", e.ps.TreeDepth, e.ps.BatchSize, depth, batch)
	}
	// damaged key files
	raw, err := os.ReadFile(e.keys)
	if err != nil {
		return nil, err
	}
	e.truncated, e.empty = filepath.Join(dir, "truncated.ps"), filepath.Join(dir, "empty.ps")
	e.truncatedMid = filepath.Join(dir, "truncated-mid.ps")
	os.WriteFile(e.truncated, raw[:len(raw)-1000], 0o644) // cut inside the constraint-system section: both keys are complete
	os.WriteFile(e.truncatedMid, raw[:len(raw)/2], 0o644) // cut inside the proving key
	os.WriteFile(e.empty, nil, 0o644)
	c19envs[key] = e
	return e, nil
}

func (e *c19Env) subst(args []string) []string {
	out := make([]string, len(args))
	for i, a := range args {
		a = strings.ReplaceAll(a, "$KEYS", e.keys)
		a = strings.ReplaceAll(a, "$OTHER", e.other)
		a = strings.ReplaceAll(a, "$TRUNCATEDMID", e.truncatedMid)
		a = strings.ReplaceAll(a, "$TRUNCATED", e.truncated)
		a = strings.ReplaceAll(a, "$EMPTY", e.empty)
		a = strings.ReplaceAll(a, "$DIR", e.dir)
		out[i] = a
	}
	return out
}

// shortCoordinateProof proves valid batches in-process until a proof has a coordinate shorter than 32 bytes.
func shortCoordinateProof(t *rapid.T, e *c19Env) (*mParams, coords, bool) {
	var lastM *mParams
	var lastC coords
	have := false
	for i := 0; i < 120; i++ {
		m := fixedValidParamsDims(e.mode, e.depth, e.batch)
		if m == nil {
			return nil, coords{}, false
		}
		p, err := proveParams(e.ps, m)
		if err != nil {
			return nil, coords{}, false
		}
		c, err := proofCoords(p.Proof)
		if err != nil {
			return nil, coords{}, false
		}
		if n, _, _ := c.shortCount(); n > 0 {
			return m, c, true
		}
		lastM, lastC, have = m, c, true
	}
	// no short coordinate in 120 proofs (probability ~1e-9): use an ordinary proof rather than failing the harness
	return lastM, lastC, have
}

func genC19(mode string, depth, batch int) func(t *rapid.T) c19Case {
	return func(t *rapid.T) c19Case {
		e, err := c19Setup(mode, depth, batch)
		if err != nil {
			t.Fatalf("harness: %v", err)
		}
		c := c19Case{Mode: mode, Depth: depth, Batch: batch}
		hexs := func(v *big.Int) string { return "0x" + v.Text(16) }
		switch kind := rapid.IntRange(0, 13).Draw(t, "cmd"); kind {
		case 0: // the documented pipeline through gen-test-params
			c.Kind, c.Expect = "pipeline", "exit0"
		case 1, 2: // prove with a harness-generated valid document
			m := genValidParams(t, mode, depth, batch)
			c.Kind, c.Expect, c.Params, c.Hash = "prove-valid", "exit0", m, m.InputHash
			c.Args = []string{"prove", "--mode", mode, "--keys-file", "$KEYS"}
			c.Stdin = m.writeDoc(rapid.IntRange(0, styleHex64).Draw(t, "style"))
		case 3: // prove with invalid / mis-shaped / malformed parameters
			r := genRequest(t, mode, depth, batch)
			for r.Method != "POST" || r.Expect == "valid" || r.Expect == "gray" || r.PadLen > 0 {
				r = genRequest(t, mode, depth, batch)
			}
			c.Kind, c.Expect, c.Note = "prove-invalid", "nonzero", r.Class
			c.Args = []string{"prove", "--mode", mode, "--keys-file", "$KEYS"}
			c.Stdin = r.Body
		case 4, 5: // verify a valid in-process proof (short coordinates preferred), written by either encoder
			m, cs, okk := shortCoordinateProof(t, e)
			if !okk {
				t.Fatalf("harness: could not produce a proof")
			}
			c.Kind, c.Expect, c.Hash = "verify-valid-short-coordinate", "verify-as-harness", m.InputHash
			switch rapid.IntRange(0, 2).Draw(t, "enc") {
			case 0:
				c.Stdin, c.Note = string(writeProofJSON(cs, false)), "harness-unpadded"
			case 1:
				c.Stdin, c.Note = string(writeProofJSON(cs, true)), "harness-padded64"
			default:
				p, _ := proofFromCoords(cs)
				raw, _ := json.Marshal(&prover.Proof{Proof: p})
				c.Stdin, c.Note = string(raw), "library"
			}
			// the same JSON value in the layouts the project's own tools and a shell produce: as written by the HTTP
			// endpoint (no newline), as printed by 'prove' (newline), re-indented over several lines, CRLF
			switch pick(t, "layout", "", "", "nl", "indent", "crlf") {
			case "nl":
				c.Stdin += "\n"
				c.Note += "/newline"
			case "indent":
				var ib bytes.Buffer
				if json.Indent(&ib, []byte(c.Stdin), "", "  ") == nil {
					c.Stdin = ib.String() + "\n"
					c.Note += "/indented"
				}
			case "crlf":
				c.Stdin += "\r\n"
				c.Note += "/crlf"
			}
			hv := m.InputHash
			if rapid.IntRange(0, 3).Draw(t, "plus_r") == 0 {
				hv = new(big.Int).Add(hv, ref.R)
				c.Note += "/hash+r"
			}
			c.Hash = hv
			vm := pick(t, "vmode", mode, mode, otherMode(mode))
			c.Args = []string{"verify", "--mode", vm, "--keys-file", "$KEYS", "--input-hash", hexs(hv)}
		case 6: // tampered proof
			m, cs, okk := shortCoordinateProof(t, e)
			if !okk {
				t.Fatalf("harness: could not produce a proof")
			}
			c.Kind, c.Expect, c.Hash = "verify-tampered", "verify-as-harness", m.InputHash
			if rapid.Bool().Draw(t, "swap") {
				cs[2], cs[3] = cs[3], cs[2]
				c.Note = "bs-pair-swapped"
			} else {
				i := rapid.IntRange(0, 7).Draw(t, "coord")
				cs[i] = new(big.Int).Xor(cs[i], big.NewInt(int64(1<<uint(rapid.IntRange(0, 7).Draw(t, "bit")))))
				c.Note = "digit-changed"
			}
			c.Stdin = string(writeProofJSON(cs, false))
			c.Args = []string{"verify", "--mode", mode, "--keys-file", "$KEYS", "--input-hash", hexs(m.InputHash)}
		case 7: // wrong hash
			m, cs, okk := shortCoordinateProof(t, e)
			if !okk {
				t.Fatalf("harness: could not produce a proof")
			}
			wrong := addMod(m.InputHash, pick(t, "wh", int64(1), -1, 2))
			c.Kind, c.Expect, c.Hash = "verify-wrong-hash", "verify-as-harness", wrong
			c.Stdin = string(writeProofJSON(cs, false))
			c.Args = []string{"verify", "--mode", mode, "--keys-file", "$KEYS", "--input-hash", hexs(wrong)}
		case 8: // keys of the other mode
			m, cs, okk := shortCoordinateProof(t, e)
			if !okk {
				t.Fatalf("harness: could not produce a proof")
			}
			c.Kind, c.Expect, c.Hash = "verify-other-mode-keys", "nonzero", m.InputHash
			c.Stdin = string(writeProofJSON(cs, false))
			c.Args = []string{"verify", "--mode", pick(t, "vm", mode, otherMode(mode)), "--keys-file", "$OTHER", "--input-hash", hexs(m.InputHash)}
		case 9: // mode flag absent / garbage / wrong case
			m := fixedValidParamsDims(mode, depth, batch)
			sub := pick(t, "sub", "prove", "verify")
			var modeArgs []string
			switch rapid.IntRange(0, 3).Draw(t, "modeflag") {
			case 0:
				modeArgs, c.Note = nil, "absent"
			case 1:
				modeArgs, c.Note = []string{"--mode", "garbage"}, "garbage"
			case 2:
				modeArgs, c.Note = []string{"--mode", strings.ToUpper(mode[:1]) + mode[1:]}, "wrong-case"
			default:
				modeArgs, c.Note = []string{"--mode", ""}, "empty"
			}
			c.Kind, c.Expect = "bad-mode-flag:"+sub, "nonzero"
			if sub == "prove" {
				c.Args = append([]string{"prove"}, append(modeArgs, "--keys-file", "$KEYS")...)
				c.Stdin = m.writeDoc(styleHexLower)
			} else {
				_, cs, okk := shortCoordinateProof(t, e)
				if !okk {
					t.Fatalf("harness: could not produce a proof")
				}
				c.Args = append([]string{"verify"}, append(modeArgs, "--keys-file", "$KEYS", "--input-hash", hexs(m.InputHash))...)
				c.Stdin = string(writeProofJSON(cs, false))
			}
		case 10, 11: // unreadable keys
			which := pick(t, "keys", "$DIR/missing.ps", "$EMPTY", "$TRUNCATED", "$TRUNCATEDMID", "$DIR")
			sub := pick(t, "sub", "prove", "verify", "export-vk", "convert-to-raw")
			m := fixedValidParamsDims(mode, depth, batch)
			c.Kind, c.Expect, c.Note = "bad-keys-file:"+sub, "nonzero", which
			switch sub {
			case "prove":
				c.Args = []string{"prove", "--mode", mode, "--keys-file", which}
				c.Stdin = m.writeDoc(styleHexLower)
			case "verify":
				c.Args = []string{"verify", "--mode", mode, "--keys-file", which, "--input-hash", hexs(m.InputHash)}
				c.Stdin = `{"ar":["0x1","0x2"],"bs":[["0x1","0x2"],["0x1","0x2"]],"krs":["0x1","0x2"]}`
			case "export-vk":
				c.Args = []string{"export-vk", "--keys-file", which, "--output", "$DIR/vk.out"}
			default:
				c.Args = []string{"convert-to-raw", "--input", which, "--output", "$DIR/conv.out"}
			}
		case 12: // convert-to-raw, then verify with the converted file
			c.Kind, c.Expect = "convert-then-verify", "exit0"
		default: // malformed proof on verify's stdin
			m := fixedValidParamsDims(mode, depth, batch)
			c.Kind, c.Expect = "verify-malformed-proof", "nonzero"
			c.Stdin = pick(t, "junk", ``, `{}`, `{"ar":["0x1"]}`, `not json`, `{"ar":["zz","0x2"],"bs":[["0x1","0x2"],["0x1","0x2"]],"krs":["0x1","0x2"]}`)
			c.Args = []string{"verify", "--mode", mode, "--keys-file", "$KEYS", "--input-hash", hexs(m.InputHash)}
		}
		return c
	}
}

func fatalLogged(stderr []byte) bool {
	return bytes.Contains(stderr, []byte("FTL")) || bytes.Contains(stderr, []byte("App failed"))
}

// proveStdoutProof checks that stdout is exactly one JSON proof and nothing else: one JSON document (on one line or
// several, with or without a final newline - the statement pins neither) surrounded by nothing but white space.
func proveStdoutProof(stdout []byte) (coords, error) {
	dec := json.NewDecoder(bytes.NewReader(stdout))
	var doc json.RawMessage
	if err := dec.Decode(&doc); err != nil {
		return coords{}, fmt.Errorf("stdout does not start with a JSON document (%v): %q", err, tail(stdout, 80))
	}
	rest := stdout[int(dec.InputOffset()):]
	if len(bytes.TrimSpace(rest)) != 0 {
		return coords{}, fmt.Errorf("stdout holds more than one JSON proof: %q follows it", tail(rest, 80))
	}
	return parseProofJSON(bytes.TrimSpace(doc))
}

func runC19(c c19Case) Result {
	e, err := c19Setup(c.Mode, c.Depth, c.Batch)
	if err != nil {
		return bad("setup", "harness:cli-setup", "%v", err)
	}
	class := c.Mode + "/" + c.Kind
	tmo := 600 * time.Second
	switch c.Kind {
	case "pipeline":
		g := runCLI(tmo, nil, nil, "gen-test-params", "--mode", c.Mode, "--tree-depth", fmt.Sprint(c.Depth), "--batch-size", fmt.Sprint(c.Batch))
		if g.ExitCode != 0 {
			return bad(class, "pipeline:gen-test-params-exit", "exit %d: %s", g.ExitCode, tail(g.Stderr, 200))
		}
		m, err := parseParamsDoc(c.Mode, g.Stdout)
		if err != nil {
			return bad(class, "pipeline:gen-test-params-output", "%v", err)
		}
		p := runCLI(tmo, g.Stdout, nil, "prove", "--mode", c.Mode, "--keys-file", e.keys)
		if p.ExitCode != 0 {
			return bad(class, "pipeline:prove-rejects-gen-test-params", "prove exited %d on gen-test-params output (%s %dx%d): %s", p.ExitCode, c.Mode, c.Depth, c.Batch, tail(p.Stderr, 300))
		}
		if _, err := proveStdoutProof(p.Stdout); err != nil {
			return bad(class, "prove:stdout-not-exactly-one-proof", "%v", err)
		}
		v := runCLI(tmo, p.Stdout, nil, "verify", "--mode", c.Mode, "--keys-file", e.keys, "--input-hash", "0x"+m.InputHash.Text(16))
		if v.ExitCode != 0 {
			cs, _ := proveStdoutProof(p.Stdout)
			n, _, pos := cs.shortCount()
			return bad(class, "pipeline:verify-rejects-prove-output", "verify exited %d on the proof 'prove' just wrote (%d short coordinate(s) at %v): %s", v.ExitCode, n, pos, tail(v.Stderr, 300))
		}
		return ok(class, c.Depth != 3 || c.Batch != 2)
	case "setup-over-existing-other-mode-file":
		// commands sharing files in another order: the output path of 'setup' already holds keys of the OTHER mode
		// (same dimensions); afterwards the pipeline for the requested mode must compose over that file
		reuse := filepath.Join(e.dir, "reused.ps")
		raw, err := os.ReadFile(e.other)
		if err != nil {
			return bad(class, "harness:read", "%v", err)
		}
		if err := os.WriteFile(reuse, raw, 0o644); err != nil {
			return bad(class, "harness:write", "%v", err)
		}
		raw = nil
		defer os.Remove(reuse)
		st := runCLI(900*time.Second, nil, nil, "setup", "--mode", c.Mode, "--output", reuse, "--tree-depth", fmt.Sprint(c.Depth), "--batch-size", fmt.Sprint(c.Batch))
		if st.ExitCode != 0 {
			return bad(class, "setup:exit", "setup over an existing file exited %d: %s", st.ExitCode, tail(st.Stderr, 200))
		}
		m := fixedValidParamsDims(c.Mode, c.Depth, c.Batch)
		p := runCLI(tmo, []byte(m.writeDoc(styleHexLower)), nil, "prove", "--mode", c.Mode, "--keys-file", reuse)
		if p.ExitCode != 0 {
			return bad(class, "setup:exit0-but-keys-unusable", "'setup --mode %s' exited 0 on a path that held %s keys, but 'prove --mode %s' with that file exits %d: %s", c.Mode, otherMode(c.Mode), c.Mode, p.ExitCode, tail(p.Stderr, 200))
		}
		v := runCLI(tmo, p.Stdout, nil, "verify", "--mode", c.Mode, "--keys-file", reuse, "--input-hash", "0x"+m.InputHash.Text(16))
		if v.ExitCode != 0 {
			return bad(class, "setup:exit0-but-keys-unusable", "verify with the re-created keys exits %d: %s", v.ExitCode, tail(v.Stderr, 200))
		}
		return ok(class, true)
	case "convert-then-verify":
		conv := filepath.Join(e.dir, fmt.Sprintf("converted-%d.ps", time.Now().UnixNano()))
		defer os.Remove(conv)
		r := runCLI(tmo, nil, nil, "convert-to-raw", "--input", e.keys, "--output", conv)
		if r.ExitCode != 0 {
			return bad(class, "convert-to-raw:exit", "exit %d: %s", r.ExitCode, tail(r.Stderr, 200))
		}
		m := fixedValidParamsDims(c.Mode, c.Depth, c.Batch)
		p := runCLI(tmo, []byte(m.writeDoc(styleHexLower)), nil, "prove", "--mode", c.Mode, "--keys-file", conv)
		if p.ExitCode != 0 {
			return bad(class, "convert-to-raw:prove-with-converted", "prove with the converted keys exited %d: %s", p.ExitCode, tail(p.Stderr, 200))
		}
		v := runCLI(tmo, p.Stdout, nil, "verify", "--mode", c.Mode, "--keys-file", e.keys, "--input-hash", "0x"+m.InputHash.Text(16))
		if v.ExitCode != 0 {
			return bad(class, "convert-to-raw:verify-with-original", "a proof made with the converted keys is rejected under the original keys (exit %d): %s", v.ExitCode, tail(v.Stderr, 200))
		}
		return ok(class, true)
	}
	r := runCLI(tmo, []byte(c.Stdin), c.Env, e.subst(c.Args)...)
	if r.TimedOut {
		return bad(class, "cli:hang:"+c.Kind, "%v did not exit", c.Args)
	}
	if r.ExitCode == 0 && fatalLogged(r.Stderr) {
		return bad(class, "cli:exit0-after-fatal", "%v logged a fatal error and exited 0", c.Args)
	}
	switch c.Expect {
	case "exit0":
		if r.ExitCode != 0 {
			return bad(class, "cli:"+c.Kind+":nonzero", "%v exited %d: %s", c.Args, r.ExitCode, tail(r.Stderr, 300))
		}
		if c.Args[0] == "prove" {
			cs, err := proveStdoutProof(r.Stdout)
			if err != nil {
				return bad(class, "prove:stdout-not-exactly-one-proof", "%v", err)
			}
			p, err := proofFromCoords(cs)
			if err != nil {
				return bad(class, "prove:stdout-proof-invalid", "%v", err)
			}
			if err := verifyIndependent(p, e.ps.VerifyingKey, c.Hash); err != nil {
				return bad(class, "prove:stdout-proof-does-not-verify", "%v", err)
			}
		}
	case "nonzero-or-first-document":
		// stdin holds a complete valid document followed by something else: failing is right, and so is proving the
		// first document and ignoring the rest - but then stdout must still be exactly one proof for that document
		if r.ExitCode == 0 {
			cs, err := proveStdoutProof(r.Stdout)
			if err != nil {
				return bad(class, "prove:stdout-not-exactly-one-proof", "%s: exit 0 but %v", c.Note, err)
			}
			p, err := proofFromCoords(cs)
			if err != nil || verifyIndependent(p, e.ps.VerifyingKey, c.Hash) != nil {
				return bad(class, "prove:stdout-proof-does-not-verify", "%s: exit 0 with a proof that does not verify for the first document's hash", c.Note)
			}
		}
	case "nonzero":
		if r.ExitCode == 0 {
			return bad(class, "cli:"+c.Kind+":exit0", "%v (%s) exited with status 0; stderr: %s", c.Args, c.Note, tail(r.Stderr, 200))
		}
		if c.Args[0] == "prove" && len(bytes.TrimSpace(r.Stdout)) > 0 {
			for _, line := range bytes.Split(bytes.TrimSpace(r.Stdout), []byte("\n")) {
				if _, err := parseProofJSON(bytes.TrimSpace(line)); err == nil {
					return bad(class, "prove:proof-on-stdout-despite-failure", "prove failed (exit %d) but wrote a proof to stdout", r.ExitCode)
				}
			}
		}
	case "verify-as-harness":
		// exit 0 exactly when groth16.Verify(vk from the file, hash, proof) holds
		want := false
		if cs, err := parseProofJSON([]byte(c.Stdin)); err == nil {
			if p, err := proofFromCoords(cs); err == nil {
				want = verifyIndependent(p, e.ps.VerifyingKey, c.Hash) == nil
			}
		}
		if (r.ExitCode == 0) != want {
			cs, _ := parseProofJSON([]byte(c.Stdin))
			n, _, pos := cs.shortCount()
			return bad(class, fmt.Sprintf("verify:exit%d-but-valid=%v", btoi(r.ExitCode != 0), want), "%v (%s): exit %d, but the proof's validity for the supplied hash under the file's keys is %v (%d short coordinate(s) at %v); stderr: %s", c.Args[:3], c.Note, r.ExitCode, want, n, pos, tail(r.Stderr, 200))
		}
		class += fmt.Sprintf("/valid=%v", want)
	}
	return ok(class, true).tag("note:" + c.Kind + ":" + c.Note)
}

func btoi(b bool) int {
	if b {
		return 1
	}
	return 0
}

func c19Dims() [][3]any {
	d := [][3]any{{"insertion", 3, 2}, {"deletion", 3, 2}}
	if Thorough() {
		d = append(d, [3]any{"insertion", 5, 3}, [3]any{"deletion", 4, 3}, [3]any{"insertion", 4, 3})
	}
	return d
}

func init() { registerReplay("TestC19_Commands", runC19) }

func TestC19_Commands(t *testing.T) {
	if cliPath() == "" {
		t.Fatal("VERIF_CLI not set")
	}
	dims := c19Dims()
	d := dims[Shard()%len(dims)]
	col := stats.New("C19", "TestC19_Commands")
	defer col.Flush()
	// every listed failure cause once, deterministically, before the drawn commands
	mode, depth, batch := d[0].(string), d[1].(int), d[2].(int)
	if e, err := c19Setup(mode, depth, batch); err != nil {
		t.Fatalf("harness: %v", err)
	} else {
		for _, c := range c19FailureCauses(e) {
			res := runC19(c)
			if msg := handle(col, "C19", "TestC19_Commands", c, res); msg != "" {
				if !strings.HasPrefix(msg, "HARNESS-ERROR") {
					fmt.Printf("VIOLATION property=C19 replay=%s\n", replayPath("C19", "TestC19_Commands"))
				}
				t.Fatal(msg)
			}
		}
	}
	{
		c := c19Case{Mode: mode, Depth: depth, Batch: batch, Kind: "setup-over-existing-other-mode-file", Expect: "exit0"}
		res := runC19(c)
		if msg := handle(col, "C19", "TestC19_Commands", c, res); msg != "" {
			if !strings.HasPrefix(msg, "HARNESS-ERROR") {
				fmt.Printf("VIOLATION property=C19 replay=%s\n", replayPath("C19", "TestC19_Commands"))
			}
			t.Fatal(msg)
		}
	}
	RunRapidWith(t, col, Check[c19Case]{Prop: "C19", Test: "TestC19_Commands", Gen: genC19(d[0].(string), d[1].(int), d[2].(int)), Run: runC19})
}

// c19FailureCauses enumerates every (command, failure cause) pair of the
// statement: unknown/missing mode and unreadable keys files.
func c19FailureCauses(e *c19Env) []c19Case {
	m := fixedValidParamsDims(e.mode, e.depth, e.batch)
	p, err := proveParams(e.ps, m)
	if err != nil {
		return nil
	}
	cs, _ := proofCoords(p.Proof)
	proofJSON := string(writeProofJSON(cs, true))
	hash := "0x" + m.InputHash.Text(16)
	var out []c19Case
	base := c19Case{Mode: e.mode, Depth: e.depth, Batch: e.batch, Expect: "nonzero", Hash: m.InputHash}
	for _, mf := range []struct {
		note string
		args []string
	}{{"absent", nil}, {"garbage", []string{"--mode", "garbage"}}, {"wrong-case", []string{"--mode", strings.ToUpper(e.mode[:1]) + e.mode[1:]}}, {"empty", []string{"--mode", ""}}} {
		c := base
		c.Kind, c.Note = "bad-mode-flag:prove", mf.note
		c.Args = append([]string{"prove"}, append(append([]string{}, mf.args...), "--keys-file", "$KEYS")...)
		c.Stdin = m.writeDoc(styleHexLower)
		out = append(out, c)
		c = base
		c.Kind, c.Note = "bad-mode-flag:verify", mf.note
		c.Args = append([]string{"verify"}, append(append([]string{}, mf.args...), "--keys-file", "$KEYS", "--input-hash", hash)...)
		c.Stdin = proofJSON
		out = append(out, c)
	}
	// stdin that is not exactly one parameter document: prove must fail and write no proof
	doc := m.writeDoc(styleHexLower)
	for _, sh := range []struct{ note, stdin string }{
		{"empty", ""}, {"whitespace-only", " \n\t\n"}, {"closing-brace-then-document", "}" + doc}, {"closing-bracket", "]"},
		{"two-documents", doc + "\n" + doc}, {"truncated-document", doc[:len(doc)/2]}, {"document-then-garbage", doc + " x"},
	} {
		c := base
		c.Kind, c.Note = "prove-stdin-shape", sh.note
		if sh.note == "two-documents" || sh.note == "document-then-garbage" {
			c.Expect = "nonzero-or-first-document"
		}
		c.Args, c.Stdin = []string{"prove", "--mode", e.mode, "--keys-file", "$KEYS"}, sh.stdin
		out = append(out, c)
	}
	// the mode taken from the MTB_MODE environment variable (no --mode flag): garbage must fail although all else is valid
	for _, ev := range []string{"MTB_MODE=garbage", "MTB_MODE=" + strings.ToUpper(e.mode)} {
		c := base
		c.Kind, c.Note, c.Env = "bad-mode-flag:prove", "env:"+ev, []string{ev}
		c.Args, c.Stdin = []string{"prove", "--keys-file", "$KEYS"}, m.writeDoc(styleHexLower)
		out = append(out, c)
		c = base
		c.Kind, c.Note, c.Env = "bad-mode-flag:verify", "env:"+ev, []string{ev}
		c.Args, c.Stdin = []string{"verify", "--keys-file", "$KEYS", "--input-hash", hash}, proofJSON
		out = append(out, c)
	}
	for _, which := range []string{"$DIR/missing.ps", "$EMPTY", "$TRUNCATED", "$TRUNCATEDMID", "$DIR"} {
		for _, sub := range []string{"prove", "verify", "export-vk", "convert-to-raw"} {
			c := base
			c.Kind, c.Note = "bad-keys-file:"+sub, which
			switch sub {
			case "prove":
				c.Args, c.Stdin = []string{"prove", "--mode", e.mode, "--keys-file", which}, m.writeDoc(styleHexLower)
			case "verify":
				// a VALID proof for the right hash: only the keys file is at fault
				c.Args, c.Stdin = []string{"verify", "--mode", e.mode, "--keys-file", which, "--input-hash", hash}, proofJSON
			case "export-vk":
				c.Args = []string{"export-vk", "--keys-file", which, "--output", "$DIR/vk.out"}
			default:
				c.Args = []string{"convert-to-raw", "--input", which, "--output", "$DIR/conv.out"}
			}
			out = append(out, c)
		}
	}
	return out
}
