package props

import (
	"fmt"
	"strings"
	"sync"
	"sync/atomic"
	"testing"
	"time"

	"pgregory.net/rapid"
)

// C20 — request metrics account for every /prove response exactly once.

type c20Step struct {
	Kind string   `json:"kind"`           // one | burst | held | scrape | idle
	Held int      `json:"held,omitempty"` // held: this many requests are kept in flight at once (bodies half uploaded)
	Reqs []genReq `json:"reqs,omitempty"`
}

type c20Case struct {
	Mode  string    `json:"mode"`
	Steps []c20Step `json:"steps"`
}

func genC20(mode string) func(t *rapid.T) c20Case {
	return func(t *rapid.T) c20Case {
		c := c20Case{Mode: mode}
		n := rapid.IntRange(1, 6).Draw(t, "nsteps")
		for i := 0; i < n; i++ {
			switch rapid.IntRange(0, 5).Draw(t, "step") {
			case 0, 1, 2:
				c.Steps = append(c.Steps, c20Step{Kind: "one", Reqs: []genReq{genMetricsRequest(t, mode)}})
			case 3:
				k := rapid.IntRange(2, 8).Draw(t, "burst")
				st := c20Step{Kind: "burst"}
				for j := 0; j < k; j++ {
					st.Reqs = append(st.Reqs, genMetricsRequest(t, mode))
				}
				c.Steps = append(c.Steps, st)
			case 4:
				if rapid.Bool().Draw(t, "held") {
					// many requests in flight at the same instant: bodies are half uploaded, then all are completed
					st := c20Step{Kind: "held", Held: pick(t, "nheld", 12, 20, 33, 48)}
					for j := 0; j < 3; j++ {
						st.Reqs = append(st.Reqs, genMetricsRequest(t, mode))
					}
					c.Steps = append(c.Steps, st)
				} else {
					c.Steps = append(c.Steps, c20Step{Kind: "scrape"})
				}
			default:
				if rapid.IntRange(0, 2).Draw(t, "abandon") == 0 {
					c.Steps = append(c.Steps, c20Step{Kind: "abandon", Held: rapid.IntRange(1, 3).Draw(t, "nabandon")})
				} else {
					c.Steps = append(c.Steps, c20Step{Kind: "idle"})
				}
			}
		}
		return c
	}
}

// genMetricsRequest draws a request with a cheap body class mix; methods are
// the standard ones (thorough adds non-standard ones, labelled "unknown").
func genMetricsRequest(t *rapid.T, mode string) genReq {
	if rapid.IntRange(0, 7).Draw(t, "big_body") == 0 {
		// a body of several megabytes: whatever layer answers it (handler or anything in front of it), the response must be counted
		m := genValidParams(t, mode, 3, 2)
		n := pick(t, "big_pad", 4<<20, 8<<20, 16<<20)
		return genReq{Method: "POST", Body: m.writeDoc(styleHexLower), PadLen: n, PadAt: "whitespace-prefix", Class: "overlong:whitespace", Expect: "valid", Hash: m.InputHash}
	}
	for {
		r := genRequest(t, mode, 3, 2)
		if strings.HasPrefix(r.Class, "overlong") && rapid.IntRange(0, 2).Draw(t, "keep_overlong") != 0 {
			continue // keep only a third of the megabyte bodies: they slow this check down
		}
		if Thorough() && rapid.IntRange(0, 9).Draw(t, "oddmethod") == 0 {
			r.Method = pick(t, "odd", "FOO", "post", "PROPFIND", "TRACE", "CONNECTX")
			r.Expect, r.Class = "405", "method:nonstandard"
		}
		return r
	}
}

func foldOddMethods(m map[string]float64) map[string]float64 {
	out := map[string]float64{}
	for k, v := range m {
		i := strings.Index(k, "/")
		meth, code := k[:i], k[i:]
		switch meth {
		case "get", "put", "head", "post", "delete", "connect", "options", "notify", "trace", "patch":
		default:
			meth = "other"
		}
		out[meth+code] += v
	}
	return out
}

// methodLabel mirrors the documented labelling of the Prometheus HTTP middleware: the standard methods, written
// all upper-case or all lower-case, are labelled in lower case; anything else is "unknown".
func methodLabel(m string) string {
	switch strings.ToUpper(m) {
	case "GET", "PUT", "HEAD", "POST", "DELETE", "CONNECT", "OPTIONS", "NOTIFY", "TRACE", "PATCH":
		if m == strings.ToUpper(m) || m == strings.ToLower(m) {
			return strings.ToLower(m)
		}
	}
	return "other"
}

func runC20(c c20Case) Result {
	ps, err := getSystem(c.Mode, 3, 2)
	if err != nil {
		return bad("server", "harness:setup", "%v", err)
	}
	ts, err := startServer(ps, c.Mode)
	if err != nil {
		return bad("server", "harness:server", "%v", err)
	}
	defer ts.stop()
	tally := map[string]float64{}
	abandoned := 0
	var mu sync.Mutex
	record := func(r genReq, res httpResult) {
		if res.Err != "" {
			return
		}
		mu.Lock()
		tally[fmt.Sprintf("%s/%d", methodLabel(r.Method), res.Status)]++
		mu.Unlock()
	}
	prev := map[string]float64{}
	monotone := func(sc scrape) (string, string) {
		for k, v := range prev {
			if sc.Totals[k] < v {
				return "metrics:counter-decreased", fmt.Sprintf("http_requests_total{%s} went from %g to %g", k, v, sc.Totals[k])
			}
		}
		for k, v := range sc.Totals {
			prev[k] = v
		}
		return "", ""
	}
	// settle polls until the endpoint's totals equal the client's tally and nothing is in flight.
	settle := func() (string, string) {
		deadline := time.Now().Add(90 * time.Second) // returns as soon as settled; patience only costs on the failing path
		if c20SettleFailedOnce.Load() {
			deadline = time.Now().Add(15 * time.Second) // rapid is shrinking a failure already established with full patience
		}
		defer func() {
			if time.Now().After(deadline) {
				c20SettleFailedOnce.Store(true)
			}
		}()
		var last scrape
		for {
			last = ts.scrape(5 * time.Second)
			if last.Err != "" || last.Status != 200 {
				return "metrics:unavailable", fmt.Sprintf("scrape failed: status %d err %q", last.Status, last.Err)
			}
			if sig, msg := monotone(last); sig != "" {
				return sig, msg
			}
			// methods outside the standard set are compared by status code only (how they are labelled is the
			// middleware's business): both sides fold them into "other"
			got := foldOddMethods(last.Totals)
			// responses written to clients that had gone away were "sent" from the server's point of view only:
			// post/400 may exceed the client-side tally by at most the number of abandoned uploads
			extra := got["post/400"] - tally["post/400"]
			if extra > 0 && extra <= float64(abandoned) {
				got["post/400"] -= extra
				if got["post/400"] == 0 {
					delete(got, "post/400")
				}
			}
			same := len(got) == len(tally)
			for k, v := range tally {
				if got[k] != v {
					same = false
				}
			}
			if same && last.HasGauge && last.InFlight == 0 {
				return "", ""
			}
			if len(tally) == 0 && len(last.Totals) == 0 && (!last.HasGauge || last.InFlight == 0) {
				return "", "" // nothing sent yet: series may be absent
			}
			if time.Now().After(deadline) {
				break
			}
			time.Sleep(20 * time.Millisecond)
		}
		switch {
		case !last.HasGauge && len(tally) > 0:
			return "metrics:no-prove-series", fmt.Sprintf("no http_requests_in_flight{endpoint_pattern=\"/prove\"} series; totals: %s", fmtTally(last.Totals))
		case last.InFlight != 0:
			return "metrics:in-flight-not-zero", fmt.Sprintf("all %d responses received but http_requests_in_flight reads %g", len(tally), last.InFlight)
		}
		return "metrics:totals-differ", fmt.Sprintf("responses sent: %s; endpoint reports: %s", fmtTally(tally), fmtTally(foldOddMethods(last.Totals)))
	}

	tags := []string{}
	sawConcurrent, saw200, sawErr := false, false, false
	for si, st := range c.Steps {
		switch st.Kind {
		case "one":
			r := st.Reqs[0]
			res := ts.doReq(r)
			record(r, res)
			saw200 = saw200 || res.Status == 200
			sawErr = sawErr || res.Status >= 400
			tags = append(tags, "req:"+r.Expect)
		case "burst":
			sawConcurrent = true
			stopScraper := make(chan struct{})
			type obs struct {
				start, end time.Time
				sc         scrape
			}
			var observations []obs
			var wgS sync.WaitGroup
			wgS.Add(1)
			go func() {
				defer wgS.Done()
				for {
					select {
					case <-stopScraper:
						return
					default:
					}
					t0 := time.Now()
					sc := ts.scrape(60 * time.Second)
					observations = append(observations, obs{t0, time.Now(), sc})
					time.Sleep(5 * time.Millisecond)
				}
			}()
			var wg sync.WaitGroup
			results := make([]httpResult, len(st.Reqs))
			for i := range st.Reqs {
				wg.Add(1)
				go func(i int) {
					defer wg.Done()
					results[i] = ts.doReq(st.Reqs[i])
				}(i)
			}
			wg.Wait()
			close(stopScraper)
			wgS.Wait()
			var winStart, winEnd time.Time
			for i, res := range results {
				record(st.Reqs[i], res)
				saw200 = saw200 || res.Status == 200
				sawErr = sawErr || res.Status >= 400
				tags = append(tags, "req:"+st.Reqs[i].Expect)
				if res.Status == 200 && res.Err == "" && (winStart.IsZero() || res.End.Sub(res.Start) > winEnd.Sub(winStart)) {
					winStart, winEnd = res.Start, res.End
				}
			}
			inside, sawInFlight, slowScrapes := 0, false, 0
			_ = slowScrapes
			for _, o := range observations {
				if o.sc.Err != "" && scrapeTimedOut(o.sc.Err) {
					// a slow answer is not a verdict (the machine may be overloaded); availability while requests are in
					// flight is decided by the held step, where the harness controls how long they stay in flight
					slowScrapes++
					continue
				}
				if o.sc.Err != "" || o.sc.Status != 200 {
					return bad(c.Mode+"/burst", "metrics:unavailable-under-load", "step %d: scrape during a burst failed: status %d err %q after %v", si, o.sc.Status, o.sc.Err, o.sc.Elapsed)
				}
				if sig, msg := monotone(o.sc); sig != "" {
					return bad(c.Mode+"/burst", sig, "step %d: %s", si, msg)
				}
				if !winStart.IsZero() && o.start.After(winStart.Add(50*time.Millisecond)) && o.end.Before(winEnd.Add(-50*time.Millisecond)) {
					inside++
					if o.sc.HasGauge && o.sc.InFlight >= 1 {
						sawInFlight = true
					}
				}
			}
			if inside >= 3 {
				tags = append(tags, "burst-with-scrapes-inside-a-proof")
				if !sawInFlight {
					return bad(c.Mode+"/burst", "metrics:in-flight-never-positive", "step %d: %d scrapes completed while a proof was being generated, none read http_requests_in_flight >= 1", si, inside)
				}
			}
		case "held":
			sawConcurrent = true
			// cheap bodies (answered 400 at once when completed) held open at the same time
			held := make([]*slowUpload, 0, st.Held)
			heldReq := genReq{Method: "POST", Body: `{"inputHash":"0x1","preRoot":"zz","postRoot":"0x1","identityCommitments":[],"merkleProofs":[]}`}
			for j := 0; j < st.Held; j++ {
				su, err := startSlowUpload(ts.ProverAddr, heldReq)
				if err != nil {
					for _, h := range held {
						h.close()
					}
					return bad(c.Mode+"/held", "harness:slow-upload", "%v", err)
				}
				held = append(held, su)
			}
			dl := time.Now().Add(10 * time.Second)
			for time.Now().Before(dl) {
				sc := ts.scrape(10 * time.Second)
				if sc.Err != "" && scrapeTimedOut(sc.Err) {
					// Slow is not unavailable. The requests stay in flight for as long as the harness holds them, so a scrape
					// that is really blocked behind them stays blocked: ask again with minutes of patience, then release the
					// requests and ask once more as a control.
					if !c20BlockedConfirmed.Load() {
						sc = ts.scrape(150 * time.Second)
					}
					if sc.Err != "" && scrapeTimedOut(sc.Err) {
						for _, h := range held {
							h.close()
						}
						ctl := ts.scrape(150 * time.Second)
						if ctl.Err == "" && ctl.Status == 200 && ctl.Elapsed < 30*time.Second {
							scrapeMinTimeout.Store(0)
							c20BlockedConfirmed.Store(true) // later evaluations in this process (rapid shrinking) need not be as patient
							return bad(c.Mode+"/held", "metrics:unavailable-under-load", "step %d: with %d requests in flight on the prover address the metrics address did not answer within 160 s, and answered in %v once they were released", si, st.Held, ctl.Elapsed)
						}
						return bad(c.Mode+"/held", "harness:overloaded", "step %d: scrapes time out with and without requests in flight (control: status %d err %q after %v)", si, ctl.Status, ctl.Err, ctl.Elapsed)
					}
				}
				if sc.Err != "" || sc.Status != 200 {
					// the metrics endpoint must stay available on its own address whatever the prover address is busy with
					for _, h := range held {
						h.close()
					}
					return bad(c.Mode+"/held", "metrics:unavailable-under-load", "step %d: with %d requests in flight on the prover address a scrape of the metrics address failed: status %d err %q after %v", si, st.Held, sc.Status, sc.Err, sc.Elapsed)
				}
				if sc.HasGauge && int(sc.InFlight) >= st.Held {
					break
				}
				time.Sleep(5 * time.Millisecond)
			}
			for _, r := range st.Reqs { // ordinary requests on top of the held ones
				res := ts.doReq(r)
				record(r, res)
				saw200 = saw200 || res.Status == 200
				sawErr = sawErr || res.Status >= 400
			}
			for _, h := range held {
				res := h.finish(60 * time.Second)
				h.close()
				record(heldReq, res)
				sawErr = sawErr || res.Status >= 400
			}
			tags = append(tags, fmt.Sprintf("held-burst:%d", st.Held))
		case "abandon":
			// clients that go away in the middle of their upload: the handler's answer (400) goes nowhere. The server
			// may or may not count it; what must hold is that the gauge returns to zero and nothing else is disturbed.
			for j := 0; j < st.Held; j++ {
				su, err := startSlowUpload(ts.ProverAddr, genReq{Method: "POST", Body: `{"inputHash":"0x1","preRoot":"0x2","postRoot":"0x3","identityCommitments":[],"merkleProofs":[]}`})
				if err != nil {
					return bad(c.Mode+"/abandon", "harness:slow-upload", "%v", err)
				}
				dl := time.Now().Add(5 * time.Second)
				for time.Now().Before(dl) {
					if sc := ts.scrape(5 * time.Second); sc.HasGauge && sc.InFlight >= 1 {
						break
					}
					time.Sleep(2 * time.Millisecond)
				}
				su.close()
				abandoned++
			}
			tags = append(tags, "abandoned-upload")
		case "scrape":
			sc := ts.scrape(5 * time.Second)
			if sc.Err != "" || sc.Status != 200 {
				return bad(c.Mode+"/scrape", "metrics:unavailable", "step %d: status %d err %q", si, sc.Status, sc.Err)
			}
			if sig, msg := monotone(sc); sig != "" {
				return bad(c.Mode+"/scrape", sig, "step %d: %s", si, msg)
			}
		case "idle":
			if sig, msg := settle(); sig != "" {
				return bad(c.Mode+"/idle", sig, "step %d: %s", si, msg)
			}
		}
	}
	if sig, msg := settle(); sig != "" {
		return bad(c.Mode+"/final", sig, "after all steps: %s", msg)
	}
	class := c.Mode + "/sequential"
	if sawConcurrent {
		class = c.Mode + "/with-burst"
	}
	return ok(class, sawConcurrent || (len(tally) >= 2 && saw200 && sawErr)).tag(tags...)
}

func init() {
	registerReplay("TestC20_Deletion", runC20)
	registerReplay("TestC20_Insertion", runC20)
}

func TestC20_Deletion(t *testing.T) {
	scrapeMinTimeout.Store(int64(150 * time.Second))
	if _, err := getSystem("deletion", 3, 2); err != nil {
		t.Fatalf("harness: %v", err)
	}
	RunRapid(t, Check[c20Case]{Prop: "C20", Test: "TestC20_Deletion", Gen: genC20("deletion"), Run: runC20})
}

func TestC20_Insertion(t *testing.T) {
	scrapeMinTimeout.Store(int64(150 * time.Second))
	if _, err := getSystem("insertion", 3, 2); err != nil {
		t.Fatalf("harness: %v", err)
	}
	RunRapid(t, Check[c20Case]{Prop: "C20", Test: "TestC20_Insertion", Gen: genC20("insertion"), Run: runC20})
}

// c20BlockedConfirmed: a blocked metrics endpoint was established once with full patience and a control scrape.
var c20BlockedConfirmed atomic.Bool

// c20SettleFailedOnce: the counters did not reach the expected totals within the full 90 s once in this process.
var c20SettleFailedOnce atomic.Bool

// scrapeTimedOut reports whether a scrape error is the client's own time limit (as opposed to a refused connection,
// a reset or a bad status).
func scrapeTimedOut(e string) bool {
	return strings.Contains(e, "deadline exceeded") || strings.Contains(e, "Client.Timeout") || strings.Contains(e, "i/o timeout")
}

// ---------------------------------------------------------------------------------------------------------------
// Lingering requests: "the responses actually sent" when a request's life (upload + proof + response) is long.
// A handful of VALID requests are kept half-uploaded for 6..65 s (thorough: up to 5 min) while ordinary requests go
// through, then completed. Whatever the server does with a slow client (serve it, cut it off, answer 408), the totals
// must equal what the clients received: a response the server believes it wrote but that never left (a write
// deadline that started when the headers arrived, say) is counted and not sent.

type c20LingerCase struct {
	Mode  string   `json:"mode"`
	HoldS []int    `json:"holdS"`
	Reqs  []genReq `json:"reqs"`
}

func genC20Linger(mode string) func(t *rapid.T) c20LingerCase {
	return func(t *rapid.T) c20LingerCase {
		c := c20LingerCase{Mode: mode}
		base := []int{6, 12, 17, 33, 65}
		if Thorough() {
			base = append(base, 125, 305)
		}
		for _, b := range base {
			c.HoldS = append(c.HoldS, b+rapid.IntRange(0, 3).Draw(t, "jitter"))
		}
		n := rapid.IntRange(2, 6).Draw(t, "nreqs")
		for i := 0; i < n; i++ {
			c.Reqs = append(c.Reqs, genMetricsRequest(t, mode))
		}
		return c
	}
}

func runC20Linger(c c20LingerCase) Result {
	ps, err := getSystem(c.Mode, 3, 2)
	if err != nil {
		return bad("server", "harness:setup", "%v", err)
	}
	ts, err := startServer(ps, c.Mode)
	if err != nil {
		return bad("server", "harness:server", "%v", err)
	}
	defer ts.stop()
	tally := map[string]float64{}
	var mu sync.Mutex
	record := func(method string, res httpResult) {
		if res.Err != "" {
			return
		}
		mu.Lock()
		tally[fmt.Sprintf("%s/%d", methodLabel(method), res.Status)]++
		mu.Unlock()
	}
	var wg sync.WaitGroup
	lost := make([]string, len(c.HoldS))
	t0 := time.Now()
	for i, h := range c.HoldS {
		m := fixedValidParams(c.Mode, 500+i)
		su, err := startSlowUpload(ts.ProverAddr, genReq{Method: "POST", Body: m.writeDoc(styleHexLower)})
		if err != nil {
			return bad(c.Mode+"/linger", "harness:slow-upload", "%v", err)
		}
		wg.Add(1)
		go func(i, h int, su *slowUpload) {
			defer wg.Done()
			defer su.close()
			time.Sleep(time.Duration(h)*time.Second - time.Since(t0))
			res := su.finish(300 * time.Second)
			record("POST", res)
			if res.Err != "" {
				lost[i] = res.Err
			}
		}(i, h, su)
	}
	for _, r := range c.Reqs {
		record(r.Method, ts.doReq(r))
	}
	wg.Wait()
	nLost := 0
	for _, l := range lost {
		if l != "" {
			nLost++
		}
	}
	deadline := time.Now().Add(90 * time.Second)
	var last scrape
	for {
		last = ts.scrape(5 * time.Second)
		if last.Err == "" && last.Status == 200 {
			got := foldOddMethods(last.Totals)
			same := len(got) == len(tally)
			for k, v := range tally {
				if got[k] != v {
					same = false
				}
			}
			if same && last.HasGauge && last.InFlight == 0 {
				return ok(c.Mode+"/linger", true).tag(fmt.Sprintf("lingering-requests:%d", len(c.HoldS)), fmt.Sprintf("lingering-lost:%d", nLost))
			}
		}
		if time.Now().After(deadline) {
			break
		}
		time.Sleep(50 * time.Millisecond)
	}
	if last.Err != "" || last.Status != 200 {
		return bad(c.Mode+"/linger", "harness:scrape", "scrape failed: status %d err %q", last.Status, last.Err)
	}
	if last.InFlight != 0 {
		return bad(c.Mode+"/linger", "metrics:in-flight-not-zero", "all requests completed or failed at the client, gauge reads %g", last.InFlight)
	}
	return bad(c.Mode+"/linger", "metrics:totals-differ", "requests held half-uploaded for %v s, then completed (client-side failures: %v); responses received: %s; endpoint reports: %s", c.HoldS, lost, fmtTally(tally), fmtTally(foldOddMethods(last.Totals)))
}

func init() {
	registerReplay("TestC20_Linger", runC20Linger)
}

func TestC20_Linger(t *testing.T) {
	scrapeMinTimeout.Store(int64(150 * time.Second))
	if _, err := getSystem("deletion", 3, 2); err != nil {
		t.Fatalf("harness: %v", err)
	}
	RunRapid(t, Check[c20LingerCase]{Prop: "C20", Test: "TestC20_Linger", Gen: genC20Linger("deletion"), Run: runC20Linger})
}
