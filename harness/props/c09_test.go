package props

import (
	"fmt"
	"sync"
	"testing"
	"time"

	"pgregory.net/rapid"

	"verifharness/stats"
)

// C09 — /prove answers every request with the documented status, code and a valid proof.

type timeLimit struct{ d time.Duration }

type c09Case struct {
	Mode     string   `json:"mode"`
	Depth    int      `json:"depth"`
	Batch    int      `json:"batch"`
	Requests []genReq `json:"requests"`
	Canary   genReq   `json:"canary"`
	Trio     []genReq `json:"trio,omitempty"` // three different valid batches sent overlapping (0, 30, 40 ms) before the canary
}

var c09servers = map[string]*testServer{}

func c09Server(mode string, depth, batch int) (*testServer, error) {
	key := fmt.Sprintf("%s/%d/%d", mode, depth, batch)
	if s, okk := c09servers[key]; okk {
		return s, nil
	}
	ps, err := getSystem(mode, depth, batch)
	if err != nil {
		return nil, err
	}
	s, err := startServer(ps, mode)
	if err != nil {
		return nil, err
	}
	c09servers[key] = s
	return s, nil
}

func genC09(mode string) func(t *rapid.T) c09Case {
	return func(t *rapid.T) c09Case {
		c := c09Case{Mode: mode, Depth: 3, Batch: 2}
		n := rapid.IntRange(1, 14).Draw(t, "nreq")
		for i := 0; i < n; i++ {
			c.Requests = append(c.Requests, genRequest(t, mode, c.Depth, c.Batch))
		}
		if rapid.IntRange(0, 2).Draw(t, "same_prestate_pair") == 0 {
			// two different valid batches on the same tree state, back to back (anything remembered per pre-root,
			// per start index or per connection would serve the second one wrongly)
			h := genHistory(t, c.Depth, 8)
			for j := 0; j < 2; j++ {
				if m := genValidParamsOn(t, h, mode, c.Batch); m != nil {
					c.Requests = append(c.Requests, genReq{Method: "POST", Body: m.writeDoc(styleHexLower), Class: "valid:shared-prestate", Expect: "valid", Hash: m.InputHash})
				}
			}
		}
		if rapid.IntRange(0, 2).Draw(t, "trailing_data") == 0 {
			tm := genValidParams(t, mode, c.Depth, c.Batch)
			doc := tm.writeDoc(styleHexLower)
			tr := pick(t, "trailer2", "}", " x", "\n"+doc, "\n"+genValidParams(t, mode, c.Depth, c.Batch).writeDoc(styleHexLower), " null", "]")
			c.Requests = append(c.Requests, genReq{Method: "POST", Body: doc + tr, Class: "trailing-data", Expect: "malformed"})
		}
		if rapid.IntRange(0, 2).Draw(t, "trio") == 0 {
			for j := 0; j < 3; j++ {
				tm := genValidParams(t, mode, c.Depth, c.Batch)
				c.Trio = append(c.Trio, genReq{Method: "POST", Body: tm.writeDoc(styleHexLower), Class: "valid:overlapping", Expect: "valid", Hash: tm.InputHash})
			}
		}
		m := genValidParams(t, mode, c.Depth, c.Batch)
		c.Canary = genReq{Method: "POST", Body: m.writeDoc(styleHexLower), Class: "canary", Expect: "valid", Hash: m.InputHash}
		return c
	}
}

var c09col *stats.Collector

func runC09(c c09Case) Result {
	ts, err := c09Server(c.Mode, c.Depth, c.Batch)
	if err != nil {
		return bad("server", "harness:server", "%v", err)
	}
	limit := timeLimit{180 * time.Second} // far above 50x the measured prove time (0.35-1 s), so that machine load cannot fail it
	tags := []string{}
	classes := map[string]bool{}
	if len(c.Trio) > 0 {
		// "every request": the same oracle when requests overlap on the one server
		results := make([]httpResult, len(c.Trio))
		var wg sync.WaitGroup
		for i := range c.Trio {
			wg.Add(1)
			go func(i int) {
				defer wg.Done()
				if i > 0 {
					time.Sleep(time.Duration(20+10*i) * time.Millisecond)
				}
				results[i] = ts.doReq(c.Trio[i])
			}(i)
		}
		wg.Wait()
		for i, r := range c.Trio {
			tags = append(tags, "req:"+r.Class)
			if sig, msg := checkResponse(ts, r, results[i], limit); sig != "" {
				return bad(c.Mode+"/overlapping", "overlapping:"+sig, "overlapping request %d of 3 (%s mode): %s", i+1, c.Mode, msg)
			}
		}
	}
	for i, r := range append(append([]genReq(nil), c.Requests...), c.Canary) {
		res := ts.doReq(r)
		tags = append(tags, "req:"+r.Class, fmt.Sprintf("status:%d", res.Status))
		if r.Query != "" {
			tags = append(tags, "with-query-string")
		}
		if r.Framing != "" {
			tags = append(tags, "framing:"+r.Framing)
		}
		if r.Expect == "gray" {
			tags = append(tags, fmt.Sprintf("gray-answer:%s:%d", r.Class, res.Status))
		}
		classes[r.Expect] = true
		if sig, msg := checkResponse(ts, r, res, limit); sig != "" {
			where := fmt.Sprintf("request %d of %d", i+1, len(c.Requests)+1)
			if r.Class == "canary" {
				sig = "canary:" + sig
				where = "canary after the sequence"
			}
			return bad(c.Mode+"/"+r.Expect, sig, "%s (%s mode): %s", where, c.Mode, msg)
		}
	}
	return ok(fmt.Sprintf("%s/sequence-of-%d", c.Mode, bucket(len(c.Requests))), true).tag(tags...)
}

func bucket(n int) int {
	for _, b := range []int{1, 2, 4, 8, 16} {
		if n <= b {
			return b
		}
	}
	return 32
}

func init() {
	registerReplay("TestC09_Insertion", runC09)
	registerReplay("TestC09_Deletion", runC09)
}

func c09Required(col *stats.Collector) {
	for _, cls := range []string{"method:GET", "not-a-document", "truncated-document", "trailing-data", "valid", "canary", "bad-index"} {
		col.Require("tag:req:" + cls)
	}
}

func TestC09_Insertion(t *testing.T) {
	col := stats.New("C09", "TestC09_Insertion")
	defer col.Flush()
	c09Required(col)
	if _, err := c09Server("insertion", 3, 2); err != nil {
		t.Fatalf("harness: %v", err)
	}
	RunRapidWith(t, col, Check[c09Case]{Prop: "C09", Test: "TestC09_Insertion", Gen: genC09("insertion"), Run: runC09})
}

func TestC09_Deletion(t *testing.T) {
	col := stats.New("C09", "TestC09_Deletion")
	defer col.Flush()
	c09Required(col)
	if _, err := c09Server("deletion", 3, 2); err != nil {
		t.Fatalf("harness: %v", err)
	}
	RunRapidWith(t, col, Check[c09Case]{Prop: "C09", Test: "TestC09_Deletion", Gen: genC09("deletion"), Run: runC09})
}

// FuzzProveBody (thorough tier, native coverage-guided fuzzing): arbitrary
// bytes as the POST body of a deletion-mode server. Oracle: a complete
// response; status 200 or 400; 400 bodies have the documented shape and one
// of the two documented codes; 200 bodies verify for the document's inputHash.
func FuzzProveBody(f *testing.F) {
	for _, s := range integrationBodies {
		f.Add([]byte(s))
	}
	for _, s := range []string{`{}`, `null`, `[]`, `{"inputHash":"0x"}`, `{"inputHash":"0x1","deletionIndices":[4294967296]}`,
		`{"inputHash":"0x1","deletionIndices":[0,1],"preRoot":"0x1","postRoot":"0x1","identityCommitments":["0x0","0x0"],"merkleProofs":[[],[]]}`,
		`{"inputHash":"0x1","deletionIndices":[0,1,2],"preRoot":"0x1","postRoot":"0x1","identityCommitments":["0x0"],"merkleProofs":null}`} {
		f.Add([]byte(s))
	}
	ps, err := getSystem("deletion", 3, 2)
	if err != nil {
		f.Fatal(err)
	}
	ts, err := startServer(ps, "deletion")
	if err != nil {
		f.Fatal(err)
	}
	f.Fuzz(func(t *testing.T, data []byte) {
		res := ts.do("POST", data)
		if res.Err != "" {
			t.Fatalf("no complete response: %s", res.Err)
		}
		switch res.Status {
		case 400:
			code, okk := errorCode(res.Body)
			if !okk || (code != "malformed_body" && code != "proving_error") {
				t.Fatalf("400 body %s", tail(res.Body, 200))
			}
		case 200:
			m, err := parseParamsDocLoose(data)
			if err != nil {
				t.Fatalf("200 for a body the harness cannot read an inputHash from: %v", err)
			}
			if err := proofVerifies(ps, res.Body, m); err != nil {
				t.Fatalf("200 without a verifying proof: %v", err)
			}
		default:
			t.Fatalf("status %d", res.Status)
		}
	})
}
