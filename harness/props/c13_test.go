package props

import (
	"fmt"
	"strings"
	"sync"
	"testing"
	"time"

	"pgregory.net/rapid"
)

// C13 — concurrent prove requests are isolated from one another.
// Built with -race by the driver: any data-race report fails the process.

type c13Client struct {
	OffsetMs int    `json:"offsetMs"`
	Req      genReq `json:"req"`
	Scrape   bool   `json:"scrape,omitempty"` // a /metrics scrape instead of a /prove request
	AbortMs  int    `json:"abortMs,omitempty"` // > 0: the client walks away (closes its connection) this long after sending
}

type c13Case struct {
	Mode     string      `json:"mode"`
	Clients  []c13Client `json:"clients"`
	FollowUp *genReq     `json:"followUp,omitempty"` // a valid request sent after the round when a client walked away in it
}

func genC13(mode string) func(t *rapid.T) c13Case {
	return func(t *rapid.T) c13Case {
		c := c13Case{Mode: mode}
		maxN := 8
		if Thorough() {
			maxN = 16
		}
		n := rapid.IntRange(3, maxN).Draw(t, "clients")
		// plus a crowd of cheap requests (answered without proving): they cost nothing and multiply the chances that
		// two requests are inside the body-reading / decoding / error paths at the same time
		crowd := rapid.IntRange(4, 20).Draw(t, "crowd")
		n += crowd
		// at least two valid requests with their own histories (distinct hashes) and one failing one
		shared := genHistory(t, 3, 8) // half of the cases: the two valid requests start from the SAME tree state
		shareState := rapid.Bool().Draw(t, "share_prestate")
		for i := 0; i < n; i++ {
			cl := c13Client{OffsetMs: rapid.IntRange(0, 30).Draw(t, "offset")}
			switch {
			case i < 2:
				m := genValidParams(t, mode, 3, 2)
				if shareState {
					if sm := genValidParamsOn(t, shared, mode, 2); sm != nil {
						m = sm
					}
				}
				cl.Req = genReq{Method: "POST", Body: m.writeDoc(styleHexLower), Class: "valid", Expect: "valid", Hash: m.InputHash}
				if pad := pick(t, "valid_pad", 0, 0, 1<<20, 4<<20); pad > 0 {
					// megabyte bodies (production batches are this large): reading and decoding then take long enough to overlap
					cl.Req.PadLen, cl.Req.PadAt, cl.Req.Class = pad, "whitespace-prefix", "overlong:whitespace"
				}
			case i == 2 && rapid.Bool().Draw(t, "twin"):
				// the unsatisfiable TWIN of client 0: the same batch data, only the claimed input hash differs
				// (anything that merges or caches work per batch rather than per request confuses the two)
				var tw mParams
				raw0 := c.Clients[0].Req.Body
				if m0, err := parseParamsDoc(mode, []byte(raw0)); err == nil {
					tw = *m0
					tw.InputHash = addMod(tw.InputHash, pick(t, "twin_delta", int64(1), -1))
					cl.Req = genReq{Method: "POST", Body: tw.writeDoc(styleHexLower), Class: "near-valid:twin-wrong-hash", Expect: "proving_error"}
					cl.OffsetMs = c.Clients[0].OffsetMs + rapid.IntRange(-5, 40).Draw(t, "twin_offset")
					if cl.OffsetMs < 0 {
						cl.OffsetMs = 0
					}
					break
				}
				fallthrough
			case i == 2:
				m := genValidParams(t, mode, 3, 2)
				m.PostRoot = addMod(m.PostRoot, 1)
				cl.Req = genReq{Method: "POST", Body: m.writeDoc(styleHexLower), Class: "near-valid:post+1", Expect: "proving_error"}
			case rapid.IntRange(0, 7).Draw(t, "scrape") == 0:
				cl.Scrape = true
			case i >= n-crowd:
				for {
					cl.Req = genRequest(t, mode, 3, 2)
					if cl.Req.Expect != "valid" && cl.Req.Expect != "gray" && cl.Req.PadLen == 0 {
						break
					}
				}
				cl.OffsetMs = rapid.IntRange(0, 400).Draw(t, "crowd_offset")
			default:
				cl.Req = genRequest(t, mode, 3, 2)
				if cl.Req.PadLen == 0 && rapid.IntRange(0, 3).Draw(t, "pad_any") == 0 && strings.HasPrefix(cl.Req.Body, "{") && cl.Req.Method == "POST" {
					// leading whitespace does not change what the document is
					cl.Req.PadLen, cl.Req.PadAt = pick(t, "any_pad", 1<<20, 2<<20, 4<<20), "whitespace-prefix"
				}
				if rapid.Bool().Draw(t, "second_wave") {
					cl.OffsetMs += rapid.IntRange(100, 600).Draw(t, "wave_offset") // overlaps the tail of the first wave
				}
			}
			c.Clients = append(c.Clients, cl)
		}
		if rapid.Bool().Draw(t, "with_aborts") {
			// one or two clients with VALID requests that walk away while their request is queued or being proved
			// (a timed-out or killed client): what happens to THEIR request is their business, every other client's
			// response must still be its own, and the server must serve the next request normally
			na := rapid.IntRange(1, 2).Draw(t, "aborts")
			for a := 0; a < na; a++ {
				m := genValidParams(t, mode, 3, 2)
				cl := c13Client{OffsetMs: rapid.IntRange(0, 60).Draw(t, "abort_offset"), AbortMs: pick(t, "abort_after", 2, 10, 40, 120, 300, 800)}
				cl.Req = genReq{Method: "POST", Body: m.writeDoc(styleHexLower), Class: "valid:client-walks-away", Expect: "valid", Hash: m.InputHash}
				// early in the list so that other clients queue up behind it
				pos := rapid.IntRange(0, 2).Draw(t, "abort_pos")
				c.Clients = append(c.Clients[:pos], append([]c13Client{cl}, c.Clients[pos:]...)...)
			}
			fm := genValidParams(t, mode, 3, 2)
			c.FollowUp = &genReq{Method: "POST", Body: fm.writeDoc(styleHexLower), Class: "valid:after-walk-away", Expect: "valid", Hash: fm.InputHash}
		}
		return c
	}
}

var (
	c13mu      sync.Mutex
	c13servers = map[string]*testServer{}
)

func c13Server(mode string) (*testServer, error) {
	c13mu.Lock()
	defer c13mu.Unlock()
	if s, okk := c13servers[mode]; okk {
		return s, nil
	}
	ps, err := getSystem(mode, 3, 2)
	if err != nil {
		return nil, err
	}
	s, err := startServer(ps, mode)
	if err != nil {
		return nil, err
	}
	c13servers[mode] = s
	return s, nil
}

func runC13(c c13Case) Result {
	ts, err := c13Server(c.Mode)
	if err != nil {
		return bad("server", "harness:server", "%v", err)
	}
	results := make([]httpResult, len(c.Clients))
	scrapes := make([]scrape, len(c.Clients))
	var wg sync.WaitGroup
	t0 := time.Now()
	for i := range c.Clients {
		wg.Add(1)
		go func(i int) {
			defer wg.Done()
			time.Sleep(time.Duration(c.Clients[i].OffsetMs)*time.Millisecond - time.Since(t0))
			if c.Clients[i].Scrape {
				scrapes[i] = ts.scrape(30 * time.Second)
				return
			}
			if c.Clients[i].AbortMs > 0 {
				results[i] = ts.doAbort(c.Clients[i].Req, time.Duration(c.Clients[i].AbortMs)*time.Millisecond)
				return
			}
			results[i] = ts.doReq(c.Clients[i].Req)
		}(i)
	}
	wg.Wait()
	var followUp httpResult
	if c.FollowUp != nil {
		followUp = ts.doReq(*c.FollowUp)
	}
	limit := timeLimit{300 * time.Second} // race-instrumented proofs are slow; concurrency multiplies that
	valid200, failing, overlapping := 0, 0, 0
	tags := []string{}
	for i, cl := range c.Clients {
		if cl.Scrape {
			if scrapes[i].Err != "" || scrapes[i].Status != 200 {
				return bad(c.Mode+"/concurrent", "metrics:unavailable-under-load", "client %d: scrape status %d err %q", i, scrapes[i].Status, scrapes[i].Err)
			}
			continue
		}
		res := results[i]
		if cl.AbortMs > 0 {
			// the client left: no response is owed; if one arrived in time it must still be the right one
			if res.Err == "" {
				if sig, msg := checkResponse(ts, cl.Req, res, limit); sig != "" {
					return bad(c.Mode+"/concurrent", "concurrent:"+sig, "client %d of %d (%s, answered before it walked away): %s", i, len(c.Clients), cl.Req.Class, msg)
				}
				tags = append(tags, "walk-away:answered-first")
			} else {
				tags = append(tags, "walk-away:left")
			}
			continue
		}
		if sig, msg := checkResponse(ts, cl.Req, res, limit); sig != "" {
			return bad(c.Mode+"/concurrent", "concurrent:"+sig, "client %d of %d (%s): %s", i, len(c.Clients), cl.Req.Class, msg)
		}
		tags = append(tags, "req:"+cl.Req.Expect)
		if res.Status == 200 {
			valid200++
			// the proof must be this client's, not another client's
			for j, other := range c.Clients {
				if j == i || other.Scrape || other.Req.Hash == nil || other.Req.Hash.Cmp(cl.Req.Hash) == 0 {
					continue
				}
				if proofVerifies(ts.PS, res.Body, other.Req.Hash) == nil {
					return bad(c.Mode+"/concurrent", "concurrent:proof-of-another-request", "client %d received a proof that verifies for client %d's input hash", i, j)
				}
			}
		} else {
			failing++
		}
		for j := range c.Clients {
			if j != i && !c.Clients[j].Scrape && results[j].Start.Before(res.End) && res.Start.Before(results[j].End) {
				overlapping++
				break
			}
		}
	}
	if c.FollowUp != nil {
		if sig, msg := checkResponse(ts, *c.FollowUp, followUp, limit); sig != "" {
			return bad(c.Mode+"/concurrent", "after-client-walked-away:"+sig, "the request sent after a round in which a client walked away: %s", msg)
		}
		tags = append(tags, "req:follow-up")
	}
	nontrivial := valid200 >= 2 && failing >= 1 && overlapping >= 3
	return ok(fmt.Sprintf("%s/clients<=%d", c.Mode, bucket(len(c.Clients))), nontrivial).tag(tags...).tag(fmt.Sprintf("overlapping-requests:%d", bucket(overlapping)))
}

func init() {
	registerReplay("TestC13_Deletion", runC13)
	registerReplay("TestC13_Insertion", runC13)
}

func TestC13_Deletion(t *testing.T) {
	if _, err := c13Server("deletion"); err != nil {
		t.Fatalf("harness: %v", err)
	}
	RunRapid(t, Check[c13Case]{Prop: "C13", Test: "TestC13_Deletion", Gen: genC13("deletion"), Run: runC13})
}

func TestC13_Insertion(t *testing.T) {
	if _, err := c13Server("insertion"); err != nil {
		t.Fatalf("harness: %v", err)
	}
	RunRapid(t, Check[c13Case]{Prop: "C13", Test: "TestC13_Insertion", Gen: genC13("insertion"), Run: runC13})
}
