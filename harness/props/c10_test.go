package props

import (
	"bytes"
	"encoding/json"
	"fmt"
	"math/big"
	"sync"
	"testing"

	"github.com/consensys/gnark-crypto/ecc"
	"github.com/consensys/gnark-crypto/ecc/bn254"
	"github.com/consensys/gnark-crypto/ecc/bn254/fp"
	"github.com/consensys/gnark/backend/groth16"
	"pgregory.net/rapid"

	"worldcoin/gnark-mbu/prover"

	"verifharness/ref"
	"verifharness/stats"
)

// C10 — proof JSON carries the eight EVM-order coordinates and round-trips losslessly.

type c10Case struct {
	Kind   string   `json:"kind"` // synthetic | real
	Coords coords   `json:"coords"`
	VK     []byte   `json:"vk,omitempty"`   // raw verifying key (real proofs)
	Hash   *big.Int `json:"hash,omitempty"` // public input (real proofs)
	Note   string   `json:"note,omitempty"`
}

func g1SmallX(x int64, neg bool) (bn254.G1Affine, bool) {
	var p bn254.G1Affine
	var x3, y fp.Element
	p.X.SetInt64(x)
	x3.Square(&p.X).Mul(&x3, &p.X)
	var three fp.Element
	three.SetInt64(3)
	x3.Add(&x3, &three)
	if y.Sqrt(&x3) == nil {
		return p, false
	}
	// take the smaller root, or its negation
	yb := fpBig(&y)
	var ny fp.Element
	ny.Neg(&y)
	if fpBig(&ny).Cmp(yb) < 0 {
		y = ny
	}
	if neg {
		y.Neg(&y)
	}
	p.Y = y
	return p, p.IsOnCurve()
}

func genG1(t *rapid.T, label string) bn254.G1Affine {
	_, _, g1, _ := bn254.Generators()
	switch rapid.IntRange(0, 3).Draw(t, label+"_k") {
	case 0:
		// points with very small x (and small or large y)
		x0 := int64(rapid.IntRange(1, 400).Draw(t, label+"_x"))
		for x := x0; ; x++ {
			if p, okk := g1SmallX(x, rapid.Bool().Draw(t, label+"_neg")); okk {
				return p
			}
		}
	case 1:
		// scalar multiples searched until a coordinate is short
		k := genBelow(t, ref.R, label+"_s")
		for i := 0; i < 2000; i++ {
			var p bn254.G1Affine
			p.ScalarMultiplication(&g1, k)
			if len(fpBig(&p.X).Bytes()) < 32 || len(fpBig(&p.Y).Bytes()) < 32 {
				return p
			}
			k.Add(k, big.NewInt(1))
		}
	}
	var p bn254.G1Affine
	k := genBelow(t, ref.R, label+"_s")
	if k.Sign() == 0 {
		k.SetInt64(1)
	}
	p.ScalarMultiplication(&g1, k)
	return p
}

func genG2(t *rapid.T, label string) bn254.G2Affine {
	_, _, _, g2 := bn254.Generators()
	k := genBelow(t, ref.R, label+"_s")
	if k.Sign() == 0 {
		k.SetInt64(1)
	}
	var p bn254.G2Affine
	if rapid.Bool().Draw(t, label+"_short") {
		for i := 0; i < 4000; i++ {
			p.ScalarMultiplication(&g2, k)
			for _, e := range []*fp.Element{&p.X.A0, &p.X.A1, &p.Y.A0, &p.Y.A1} {
				if len(fpBig(e).Bytes()) < 32 {
					return p
				}
			}
			k.Add(k, big.NewInt(1))
		}
	}
	p.ScalarMultiplication(&g2, k)
	return p
}

func genC10(t *rapid.T) c10Case {
	ar, bs, krs := genG1(t, "ar"), genG2(t, "bs"), genG1(t, "krs")
	return c10Case{Kind: "synthetic", Coords: coords{fpBig(&ar.X), fpBig(&ar.Y), fpBig(&bs.X.A1), fpBig(&bs.X.A0), fpBig(&bs.Y.A1), fpBig(&bs.Y.A0), fpBig(&krs.X), fpBig(&krs.Y)}}
}

func runC10(c c10Case) Result {
	n, shortest, positions := c.Coords.shortCount()
	class := fmt.Sprintf("%s/short=%d", c.Kind, n)
	tags := []string{}
	for _, p := range positions {
		tags = append(tags, fmt.Sprintf("short-position:%d", p))
	}
	sigSuffix := "all-32B"
	if n > 0 {
		sigSuffix = "coordinate<32B"
	}
	p, err := proofFromCoords(c.Coords)
	if err != nil {
		return bad(class, "harness:bad-coordinates", "%v", err)
	}
	var vk groth16.VerifyingKey
	if len(c.VK) > 0 {
		vk = groth16.NewVerifyingKey(ecc.BN254)
		if _, err := vk.ReadFrom(bytes.NewReader(c.VK)); err != nil {
			return bad(class, "harness:vk", "%v", err)
		}
		if err := verifyIndependent(p, vk, c.Hash); err != nil {
			return bad(class, "harness:original-does-not-verify", "%v", err)
		}
	}
	// (1) encoding: eight EVM-order coordinates as hexadecimal integers
	text, err := json.Marshal(&prover.Proof{Proof: p})
	if err != nil {
		return bad(class, "Proof.MarshalJSON:error", "%v", err)
	}
	got, err := parseProofJSON(text)
	if err != nil {
		return bad(class, "Proof.MarshalJSON:shape", "encoded proof %s is not the documented shape: %v", text, err)
	}
	if !got.equal(c.Coords) {
		return bad(class, "Proof.MarshalJSON:order-or-value", "encoded coordinates %v differ from A.x,A.y,B.x1,B.x0,B.y1,B.y0,C.x,C.y = %v", got, c.Coords)
	}
	// (2) decoding the library's own text, (4) decoding zero-padded text written by the harness
	// decode ANOTHER proof's text in between (the previous case's): decoding must not depend on what was decoded before
	c10prevMu.Lock()
	prev := c10prev
	c10prev = append([]byte(nil), text...)
	c10prevMu.Unlock()
	if prev != nil {
		var other prover.Proof
		func() {
			defer func() { recover() }()
			json.Unmarshal(prev, &other)
		}()
	}
	for _, variant := range []struct {
		name string
		text []byte
	}{{"own-output", text}, {"padded-64", writeProofJSON(c.Coords, true)}, {"own-output-again", text}} {
		var back prover.Proof
		var perr any
		func() {
			defer func() { perr = recover() }()
			err = json.Unmarshal(variant.text, &back)
		}()
		if perr != nil {
			return bad(class, "Proof.UnmarshalJSON:panic:"+sigSuffix, "decoding %s panicked: %v", variant.name, perr)
		}
		if err != nil && variant.name == "padded-64" {
			continue // accepting zero-padded hex is not promised: if accepted it must be lossless, rejecting it is fine
		}
		if err != nil {
			return bad(class, "Proof.UnmarshalJSON:rejects-"+variant.name+":"+sigSuffix, "decoding %s fails: %v (%d coordinate(s) shorter than 32 bytes, shortest %d bytes, positions %v)", variant.name, err, n, shortest, positions)
		}
		bc, err := proofCoords(back.Proof)
		if err != nil {
			return bad(class, "harness:reflection", "%v", err)
		}
		if !bc.equal(c.Coords) {
			return bad(class, "Proof.UnmarshalJSON:lossy-"+variant.name+":"+sigSuffix, "decoded proof differs from the original (%d short coordinate(s), positions %v)", n, positions)
		}
		// (3) still accepted by the verifier
		if vk != nil {
			if err := verifyIndependent(back.Proof, vk, c.Hash); err != nil {
				return bad(class, "Proof.UnmarshalJSON:decoded-does-not-verify:"+sigSuffix, "decoded proof rejected by the verifier: %v", err)
			}
		}
	}
	return ok(class, n > 0).tag(tags...)
}

var (
	c10prevMu sync.Mutex
	c10prev   []byte
)

func init() {
	registerReplay("TestC10_Synthetic", runC10)
	registerReplay("TestC10_Real", runC10)
}

func TestC10_Synthetic(t *testing.T) {
	col := stats.New("C10", "TestC10_Synthetic")
	defer col.Flush()
	for i := 0; i < 8; i++ {
		col.Require(fmt.Sprintf("tag:short-position:%d", i))
	}
	RunRapidWith(t, col, Check[c10Case]{Prop: "C10", Test: "TestC10_Synthetic", Gen: genC10, Run: runC10})
}

// TestC10_Real: proofs produced by the code under test for generated valid batches.
func TestC10_Real(t *testing.T) {
	mode := pick2(Shard()%2 == 0, "deletion", "insertion")
	ps, err := getSystem(mode, 3, 2)
	if err != nil {
		t.Fatal(err)
	}
	var vkb bytes.Buffer
	if _, err := ps.VerifyingKey.WriteRawTo(&vkb); err != nil {
		t.Fatal(err)
	}
	RunRapid(t, Check[c10Case]{Prop: "C10", Test: "TestC10_Real", Run: runC10, Gen: func(rt *rapid.T) c10Case {
		m := genValidParams(rt, mode, 3, 2)
		proof, err := proveParams(ps, m)
		if err != nil {
			rt.Fatalf("harness: could not prove a generated valid batch: %v", err)
		}
		cs, err := proofCoords(proof.Proof)
		if err != nil {
			rt.Fatalf("harness: %v", err)
		}
		return c10Case{Kind: "real", Coords: cs, VK: vkb.Bytes(), Hash: m.InputHash, Note: mode}
	}})
}

func pick2[T any](cond bool, a, b T) T {
	if cond {
		return a
	}
	return b
}
