package props

import (
	"fmt"
	"math/big"
	"strings"
	"sync"
	"testing"

	"pgregory.net/rapid"

	"worldcoin/gnark-mbu/prover"

	"verifharness/ref"
	"verifharness/stats"
)

// C02 — the deletion circuit accepts exactly valid deletions, padding slots are no-ops.

type c02Case struct {
	Engine  string          `json:"engine"` // e1 | e2 | tiny
	Class   string          `json:"class"`
	Slots   []string        `json:"slotClasses,omitempty"`
	History int             `json:"historySteps"`
	W       *ref.DelWitness `json:"w"`
	Strat   *HintStrategy   `json:"strat,omitempty"`
	P       *big.Int        `json:"p,omitempty"` // tiny: the field
}

var (
	delCompMu sync.Mutex
	delComp   = map[[2]int]*Compiled{}
)

func delCompiled(depth, batch int) (*Compiled, error) {
	delCompMu.Lock()
	defer delCompMu.Unlock()
	k := [2]int{depth, batch}
	if c, okk := delComp[k]; okk {
		return c, nil
	}
	ccs, err := prover.BuildR1CSDeletion(uint32(depth), uint32(batch))
	if err != nil {
		return nil, err
	}
	c, err := WrapR1CS(ccs)
	if err != nil {
		return nil, err
	}
	delComp[k] = c
	return c, nil
}

func e2DimsDel() [][2]int {
	d := [][2]int{{3, 2}, {1, 1}, {2, 4}}
	if Thorough() {
		d = append(d, [2]int{31, 1}, [2]int{10, 3})
	}
	return d
}

func genC02(engine string) func(t *rapid.T) c02Case {
	return func(t *rapid.T) c02Case {
		var depth, batch int
		if engine == "e2" {
			d := pick(t, "dims", e2DimsDel()...)
			depth, batch = d[0], d[1]
		} else {
			depth = rapid.IntRange(1, 31).Draw(t, "depth")
			maxB := 6
			if Thorough() {
				maxB = 12
			}
			batch = rapid.IntRange(1, maxB).Draw(t, "batch")
		}
		h := genHistory(t, depth, 12)
		class, slots, w := genDeletion(t, h, batch)
		c := c02Case{Engine: engine, Class: class, Slots: slots, History: h.Steps, W: w}
		if engine == "e2" && rapid.IntRange(0, 9).Draw(t, "alias_attack") == 0 {
			// Coupled attack (see C01): every slot is valid for (index + r) mod 2^(depth+1), the presented index is
			// that value minus the shift, and wide-enough index decompositions are answered with the bits of index + r.
			shift := new(big.Int).Mod(ref.R, ref.Pow2(depth+1))
			v := genValidDeletion(t, h, batch)
			okAll := true
			for i := range v.Idx {
				if v.Idx[i].Cmp(shift) < 0 {
					okAll = false
				}
			}
			if okAll {
				for i := range v.Idx {
					v.Idx[i] = new(big.Int).Sub(v.Idx[i], shift)
				}
				c.W, c.Class, c.Slots = v, "alias-attack:index+r", nil
				c.Strat = &HintStrategy{NB: "plus_kr", K: 1, N: -256, OnlyValues: ref.CloneSlice(v.Idx)}
				return c
			}
		}
		if engine == "e2" {
			c.Strat = genCircuitStrategy(t, depth, w.Idx, true)
		}
		return c
	}
}

func delHasSpecial(w *ref.DelWitness) bool {
	lim := ref.Pow2(w.Depth)
	seen := map[string]bool{}
	for _, v := range w.Idx {
		if v.Cmp(lim) >= 0 {
			return true // padding or too large
		}
		k := new(big.Int).Rsh(v, 1).String()
		if seen[k] {
			return true // duplicate or dependent sibling pair
		}
		seen[k] = true
	}
	return false
}

func runC02(c c02Case) Result {
	w := c.W
	reason := ref.RDel(ref.R, ref.H2, w)
	relOK := reason == ""
	verdict := "valid"
	if !relOK {
		verdict = "invalid:" + reason
	}
	class := fmt.Sprintf("%s/%s", c.Engine, verdict)
	tags := []string{"gen:" + c.Class, fmt.Sprintf("dims:%s:%dx%d", c.Engine, w.Depth, w.Batch)}
	for _, s := range c.Slots {
		tags = append(tags, "slot:"+s)
	}
	nontrivial := !relOK || delHasSpecial(w)
	hash := delCanonicalHash(w)
	dims := fmt.Sprintf("depth=%d batch=%d", w.Depth, w.Batch)
	idxs := fmt.Sprint(w.Idx)
	if len(idxs) > 120 {
		idxs = idxs[:120]
	}

	switch c.Engine {
	case "e1":
		if e1DelGadget != nil {
			errG := e1DelGadget(w, ref.R)
			if (errG == nil) != relOK {
				return bad(class, sigAccept("DeletionProof", errG == nil, reason, c.Class), "%s class=%s idx=%s: gadget accepted=%v, relation says %q (%s)", dims, c.Class, idxs, errG == nil, reason, errStr(errG))
			}
			tags = append(tags, "gadget-level-checked")
		}
		errF := E1(delFullCircuit(w.Depth, w.Batch), delFullAssign(w, hash), ref.R)
		if (errF == nil) != relOK {
			return bad(class, sigAccept("DeletionMbuCircuit", errF == nil, verdict, c.Class), "%s class=%s idx=%s: circuit accepted=%v, expected %v (%s) (%s)", dims, c.Class, idxs, errF == nil, relOK, verdict, errStr(errF))
		}
		return ok(class, nontrivial).tag(tags...)
	case "e2":
		cc, err := delCompiled(w.Depth, w.Batch)
		if err != nil {
			return bad(class, "harness:compile", "%v", err)
		}
		r := cc.Solve(delFullAssign(w, hash), c.Strat)
		if r.Inconsist {
			return bad(class, "harness:solver-evaluator-disagree", "solver accepted but evaluator found an unsatisfied constraint")
		}
		class += "/" + stratClass(c.Strat, r.HintNonStd)
		tags = append(tags, "strat:"+stratDetail(c.Strat, r.HintNonStd))
		if r.Accept && !relOK {
			return bad(class, sigAccept("DeletionMbuCircuit(R1CS)", true, verdict, c.Class), "%s class=%s idx=%s strat=%+v: compiled system accepted a batch the relation rejects (%s)", dims, c.Class, idxs, c.Strat, verdict)
		}
		if !r.Accept && relOK && !r.HintNonStd {
			return bad(class, sigAccept("DeletionMbuCircuit(R1CS)", false, verdict, c.Class), "%s class=%s idx=%s: compiled system rejected a valid batch under the honest prover (%s)", dims, c.Class, idxs, errStr(r.SolverErr))
		}
		if !r.HintNonStd {
			errF := E1(delFullCircuit(w.Depth, w.Batch), delFullAssign(w, hash), ref.R)
			if (errF == nil) != r.Accept {
				return bad(class, "DeletionMbuCircuit:engines-disagree", "%s class=%s: test engine accepted=%v, compiled system accepted=%v", dims, c.Class, errF == nil, r.Accept)
			}
		}
		return ok(class, nontrivial).tag(tags...)
	}
	return bad(class, "harness:unknown-engine", "unknown engine")
}

func init() {
	registerReplay("TestC02_E1", runC02)
	registerReplay("TestC02_E2", runC02)
	registerReplay("TestC02_DepthGuard", runC02Guard)
}

func runTinyEnum[C any](t *testing.T, col *stats.Collector, prop, test string, run func(C) Result, cases func(yield func(C) bool)) {
	cases(func(c C) bool {
		res := run(c)
		if res.Msg != "" {
			if msg := handle(col, prop, test, c, res); msg != "" {
				if !strings.HasPrefix(msg, "HARNESS-ERROR") {
					fmt.Printf("VIOLATION property=%s replay=%s\n", prop, replayPath(prop, test))
				}
				t.Errorf("%s", msg)
				return false
			}
			return true
		}
		col.CountEnumerated(res.Class, res.NonTrivial, func() any { return c })
		return true
	})
}

func TestC02_E1(t *testing.T) {
	RunRapid(t, Check[c02Case]{Prop: "C02", Test: "TestC02_E1", Gen: genC02("e1"), Run: runC02})
}

func TestC02_E2(t *testing.T) {
	RunRapid(t, Check[c02Case]{Prop: "C02", Test: "TestC02_E2", Gen: genC02("e2"), Run: runC02})
}

// ---------------------------------------------------------------------------
// depth guard: deletion circuits deeper than 31 levels are refused at build time

type c02Guard struct {
	Depth int `json:"depth"`
	Batch int `json:"batch"`
}

func runC02Guard(g c02Guard) Result {
	class := fmt.Sprintf("guard/depth=%d", g.Depth)
	var err error
	func() {
		defer func() {
			if r := recover(); r != nil {
				err = fmt.Errorf("panic: %v", r)
			}
		}()
		_, err = prover.BuildR1CSDeletion(uint32(g.Depth), uint32(g.Batch))
	}()
	if g.Depth > 31 && err == nil {
		return bad(class, "BuildR1CSDeletion:depth>31-accepted", "depth %d batch %d compiled without error", g.Depth, g.Batch)
	}
	if g.Depth <= 31 && err != nil {
		return bad(class, "BuildR1CSDeletion:depth<=31-refused", "depth %d batch %d refused: %v", g.Depth, g.Batch, err)
	}
	return ok(class, true)
}

func TestC02_DepthGuard(t *testing.T) {
	col := stats.New("C02", "TestC02_DepthGuard")
	defer col.Flush()
	RunEnum(t, col, "C02", "TestC02_DepthGuard", func(yield func(c02Guard) bool) {
		for _, d := range []int{31, 32, 33, 40, 64} {
			for _, b := range []int{1, 2} {
				if d == 31 && b == 2 {
					continue
				}
				if !yield(c02Guard{d, b}) {
					return
				}
			}
		}
	}, runC02Guard)
}
