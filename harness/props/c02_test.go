package props

import (
	"fmt"
	"math/big"
	"strings"
	"sync"
	"testing"

	"pgregory.net/rapid"

	"worldcoin/gnark-mbu/prover"

	"verifharness/ref"
	"verifharness/stats"
)

// C02 — the deletion circuit accepts exactly valid deletions, padding slots are no-ops.

type c02Case struct {
	Engine  string          `json:"engine"` // e1 | e2 | tiny
	Class   string          `json:"class"`
	Slots   []string        `json:"slotClasses,omitempty"`
	History int             `json:"historySteps"`
	W       *ref.DelWitness `json:"w"`
	Strat   *HintStrategy   `json:"strat,omitempty"`
	P       *big.Int        `json:"p,omitempty"` // tiny: the field
}

var (
	delCompMu sync.Mutex
	delComp   = map[[2]int]*Compiled{}
)

func delCompiled(depth, batch int) (*Compiled, error) {
	delCompMu.Lock()
	defer delCompMu.Unlock()
	k := [2]int{depth, batch}
	if c, okk := delComp[k]; okk {
		return c, nil
	}
	ccs, err := prover.BuildR1CSDeletion(uint32(depth), uint32(batch))
	if err != nil {
		return nil, err
	}
	c, err := WrapR1CS(ccs)
	if err != nil {
		return nil, err
	}
	delComp[k] = c
	return c, nil
}

func e2DimsDel() [][2]int {
	d := [][2]int{{3, 2}, {1, 1}, {2, 4}}
	if Thorough() {
		d = append(d, [2]int{31, 1}, [2]int{10, 3})
	}
	return d
}

func genC02(engine string) func(t *rapid.T) c02Case {
	return func(t *rapid.T) c02Case {
		var depth, batch int
		if engine == "e2" {
			d := pick(t, "dims", e2DimsDel()...)
			depth, batch = d[0], d[1]
		} else {
			depth = rapid.IntRange(1, 31).Draw(t, "depth")
			maxB := 6
			if Thorough() {
				maxB = 12
			}
			batch = rapid.IntRange(1, maxB).Draw(t, "batch")
		}
		h := genHistory(t, depth, 12)
		class, slots, w := genDeletion(t, h, batch)
		c := c02Case{Engine: engine, Class: class, Slots: slots, History: h.Steps, W: w}
		if engine == "e2" {
			c.Strat = genCircuitStrategy(t, depth, w.Idx, true)
		}
		return c
	}
}

func delHasSpecial(w *ref.DelWitness) bool {
	lim := ref.Pow2(w.Depth)
	seen := map[string]bool{}
	for _, v := range w.Idx {
		if v.Cmp(lim) >= 0 {
			return true // padding or too large
		}
		k := new(big.Int).Rsh(v, 1).String()
		if seen[k] {
			return true // duplicate or dependent sibling pair
		}
		seen[k] = true
	}
	return false
}

func runC02(c c02Case) Result {
	w := c.W
	reason := ref.RDel(ref.R, ref.H2, w)
	relOK := reason == ""
	verdict := "valid"
	if !relOK {
		verdict = "invalid:" + reason
	}
	class := fmt.Sprintf("%s/%s", c.Engine, verdict)
	tags := []string{"gen:" + c.Class, fmt.Sprintf("dims:%s:%dx%d", c.Engine, w.Depth, w.Batch)}
	for _, s := range c.Slots {
		tags = append(tags, "slot:"+s)
	}
	nontrivial := !relOK || delHasSpecial(w)
	hash := delCanonicalHash(w)
	dims := fmt.Sprintf("depth=%d batch=%d", w.Depth, w.Batch)
	idxs := fmt.Sprint(w.Idx)
	if len(idxs) > 120 {
		idxs = idxs[:120]
	}

	switch c.Engine {
	case "e1":
		errG := E1(delGadgetCircuit(w.Depth, w.Batch), delGadgetAssign(w), ref.R)
		if (errG == nil) != relOK {
			return bad(class, sigAccept("DeletionProof", errG == nil, reason, c.Class), "%s class=%s idx=%s: gadget accepted=%v, relation says %q (%s)", dims, c.Class, idxs, errG == nil, reason, errStr(errG))
		}
		errF := E1(delFullCircuit(w.Depth, w.Batch), delFullAssign(w, hash), ref.R)
		if (errF == nil) != relOK {
			return bad(class, sigAccept("DeletionMbuCircuit", errF == nil, verdict, c.Class), "%s class=%s idx=%s: circuit accepted=%v, expected %v (%s) (%s)", dims, c.Class, idxs, errF == nil, relOK, verdict, errStr(errF))
		}
		return ok(class, nontrivial).tag(tags...)
	case "e2":
		cc, err := delCompiled(w.Depth, w.Batch)
		if err != nil {
			return bad(class, "harness:compile", "%v", err)
		}
		r := cc.Solve(delFullAssign(w, hash), c.Strat)
		if r.Inconsist {
			return bad(class, "harness:solver-evaluator-disagree", "solver accepted but evaluator found an unsatisfied constraint")
		}
		class += "/" + stratClass(c.Strat, r.HintNonStd)
		tags = append(tags, "strat:"+stratDetail(c.Strat, r.HintNonStd))
		if r.Accept && !relOK {
			return bad(class, sigAccept("DeletionMbuCircuit(R1CS)", true, verdict, c.Class), "%s class=%s idx=%s strat=%+v: compiled system accepted a batch the relation rejects (%s)", dims, c.Class, idxs, c.Strat, verdict)
		}
		if !r.Accept && relOK && !r.HintNonStd {
			return bad(class, sigAccept("DeletionMbuCircuit(R1CS)", false, verdict, c.Class), "%s class=%s idx=%s: compiled system rejected a valid batch under the honest prover (%s)", dims, c.Class, idxs, errStr(r.SolverErr))
		}
		if !r.HintNonStd {
			errF := E1(delFullCircuit(w.Depth, w.Batch), delFullAssign(w, hash), ref.R)
			if (errF == nil) != r.Accept {
				return bad(class, "DeletionMbuCircuit:engines-disagree", "%s class=%s: test engine accepted=%v, compiled system accepted=%v", dims, c.Class, errF == nil, r.Accept)
			}
		}
		return ok(class, nontrivial).tag(tags...)
	}
	return bad(class, "harness:unknown-engine", "unknown engine")
}

func init() {
	registerReplay("TestC02_E1", runC02)
	registerReplay("TestC02_E2", runC02)
	registerReplay("TestC02_DepthGuard", runC02Guard)
}

func TestC02_E1(t *testing.T) {
	RunRapid(t, Check[c02Case]{Prop: "C02", Test: "TestC02_E1", Gen: genC02("e1"), Run: runC02})
}

func TestC02_E2(t *testing.T) {
	RunRapid(t, Check[c02Case]{Prop: "C02", Test: "TestC02_E2", Gen: genC02("e2"), Run: runC02})
}

// ---------------------------------------------------------------------------
// depth guard: deletion circuits deeper than 31 levels are refused at build time

type c02Guard struct {
	Depth int `json:"depth"`
	Batch int `json:"batch"`
}

func runC02Guard(g c02Guard) Result {
	class := fmt.Sprintf("guard/depth=%d", g.Depth)
	var err error
	func() {
		defer func() {
			if r := recover(); r != nil {
				err = fmt.Errorf("panic: %v", r)
			}
		}()
		_, err = prover.BuildR1CSDeletion(uint32(g.Depth), uint32(g.Batch))
	}()
	if g.Depth > 31 && err == nil {
		return bad(class, "BuildR1CSDeletion:depth>31-accepted", "depth %d batch %d compiled without error", g.Depth, g.Batch)
	}
	if g.Depth <= 31 && err != nil {
		return bad(class, "BuildR1CSDeletion:depth<=31-refused", "depth %d batch %d refused: %v", g.Depth, g.Batch, err)
	}
	return ok(class, true)
}

func TestC02_DepthGuard(t *testing.T) {
	col := stats.New("C02", "TestC02_DepthGuard")
	defer col.Flush()
	RunEnum(t, col, "C02", "TestC02_DepthGuard", func(yield func(c02Guard) bool) {
		for _, d := range []int{31, 32, 33, 40, 64} {
			for _, b := range []int{1, 2} {
				if d == 31 && b == 2 {
					continue
				}
				if !yield(c02Guard{d, b}) {
					return
				}
			}
		}
	}, runC02Guard)
}

// ---------------------------------------------------------------------------
// exhaustive small scope: DeletionProof gadget, depth 1, batch 1, over tiny
// prime fields — every assignment (pre, idx, item, sibling, post) in the test
// engine; and DeletionProof on the compiled tinyfield (p = 47, depth 2) system
// with every possible prover answer for the index decomposition and the
// is-zero inverse, for sampled inputs.

type c02Tiny struct {
	Kind  string        `json:"kind"` // e1 | e2t
	P     int64         `json:"p"`
	Depth int           `json:"depth"`
	Pre   int64         `json:"pre"`
	Idx   int64         `json:"idx"`
	Item  int64         `json:"item"`
	Sib   []int64       `json:"sib"`
	Post  int64         `json:"post"`
	Strat *HintStrategy `json:"strat,omitempty"`
}

func (c c02Tiny) witness() *ref.DelWitness {
	path := make([]*big.Int, len(c.Sib))
	for i, s := range c.Sib {
		path[i] = big.NewInt(s)
	}
	return &ref.DelWitness{Depth: c.Depth, Batch: 1, Idx: []*big.Int{big.NewInt(c.Idx)}, Pre: big.NewInt(c.Pre), Post: big.NewInt(c.Post),
		Ids: []*big.Int{big.NewInt(c.Item)}, Paths: [][]*big.Int{path}}
}

var (
	c02TinyMu   sync.Mutex
	c02TinyComp = map[int]*TinyCompiled{}
)

func runC02Tiny(c c02Tiny) Result {
	p := big.NewInt(c.P)
	h, err := tinyH2(p)
	if err != nil {
		return bad("tiny", "harness:tiny-poseidon", "%v", err)
	}
	w := c.witness()
	reason := ref.RDel(p, h, w)
	relOK := reason == ""
	regime := "real"
	if c.Idx >= 1<<uint(c.Depth+1) {
		regime = "unprovable"
	} else if c.Idx >= 1<<uint(c.Depth) {
		regime = "padding"
	}
	class := fmt.Sprintf("tiny-%s/p=%d/depth=%d/%s/%v", c.Kind, c.P, c.Depth, regime, relOK)
	switch c.Kind {
	case "e1":
		errG := E1(delGadgetCircuit(c.Depth, 1), delGadgetAssign(w), p)
		if (errG == nil) != relOK {
			return bad(class, sigAccept("DeletionProof(tiny)", errG == nil, reason, regime), "p=%d pre=%d idx=%d item=%d sib=%v post=%d: accepted=%v, relation says %q", c.P, c.Pre, c.Idx, c.Item, c.Sib, c.Post, errG == nil, reason)
		}
	case "e2t":
		c02TinyMu.Lock()
		cc, okk := c02TinyComp[c.Depth]
		if !okk {
			cc, err = CompileTiny(delGadgetCircuit(c.Depth, 1))
			if err == nil {
				c02TinyComp[c.Depth] = cc
			}
		}
		c02TinyMu.Unlock()
		if err != nil {
			return bad(class, "harness:compile", "%v", err)
		}
		acc, _ := cc.Solve(delGadgetAssign(w), c.Strat)
		if acc && !relOK {
			return bad(class, sigAccept("DeletionProof(tinyfield R1CS)", true, reason, regime), "pre=%d idx=%d item=%d sib=%v post=%d strat=%+v: compiled system accepted, relation says %q", c.Pre, c.Idx, c.Item, c.Sib, c.Post, c.Strat, reason)
		}
		if !acc && relOK && c.Strat.Honest() {
			return bad(class, sigAccept("DeletionProof(tinyfield R1CS)", false, reason, regime), "pre=%d idx=%d item=%d sib=%v post=%d: compiled system rejected a valid slot under the honest prover", c.Pre, c.Idx, c.Item, c.Sib, c.Post)
		}
		if !c.Strat.Honest() {
			class += "/adversarial"
		}
	}
	return ok(class, true)
}

func init() {
	registerReplay("TestC02_TinyE1", runC02Tiny)
	registerReplay("TestC02_TinyE2", runC02Tiny)
}

func runTinyEnum[C any](t *testing.T, col *stats.Collector, prop, test string, run func(C) Result, cases func(yield func(C) bool)) {
	cases(func(c C) bool {
		res := run(c)
		if res.Msg != "" {
			if msg := handle(col, prop, test, c, res); msg != "" {
				if !strings.HasPrefix(msg, "HARNESS-ERROR") {
					fmt.Printf("VIOLATION property=%s replay=%s\n", prop, replayPath(prop, test))
				}
				t.Errorf("%s", msg)
				return false
			}
			return true
		}
		col.CountEnumerated(res.Class, res.NonTrivial, func() any { return c })
		return true
	})
}

func TestC02_TinyE1(t *testing.T) {
	col := stats.New("C02", "TestC02_TinyE1")
	defer col.Flush()
	col.SetExhaustive(true)
	primes := []int64{7}
	if Thorough() {
		primes = []int64{7, 11, 13}
	}
	shard, nsh := Shard(), NShards()
	runTinyEnum(t, col, "C02", "TestC02_TinyE1", runC02Tiny, func(yield func(c02Tiny) bool) {
		n := 0
		for _, p := range primes {
			for pre := int64(0); pre < p; pre++ {
				for idx := int64(0); idx < p; idx++ {
					n++
					if n%nsh != shard {
						continue
					}
					for item := int64(0); item < p; item++ {
						for sib := int64(0); sib < p; sib++ {
							for post := int64(0); post < p; post++ {
								if !yield(c02Tiny{Kind: "e1", P: p, Depth: 1, Pre: pre, Idx: idx, Item: item, Sib: []int64{sib}, Post: post}) {
									return
								}
							}
						}
					}
				}
			}
		}
	})
}

// TestC02_TinyE2: compiled tinyfield system, depth 2, batch 1. For inputs on a
// grid (every index 0..9, a spread of values) every prover answer is tried:
// all 8 boolean answers for the 3-bit index decomposition plus two non-boolean
// ones, times all 47 values for the is-zero inverse.
func TestC02_TinyE2(t *testing.T) {
	col := stats.New("C02", "TestC02_TinyE2")
	defer col.Flush()
	col.SetExhaustive(true)
	p := TinyP
	h, err := tinyH2(p)
	if err != nil {
		t.Fatal(err)
	}
	vals := []int64{0, 5, 46}
	s1s := []int64{7}
	if Thorough() {
		vals = []int64{0, 1, 2, 5, 23, 45, 46}
		s1s = []int64{0, 7}
	}
	shard, nsh := Shard(), NShards()
	runTinyEnum(t, col, "C02", "TestC02_TinyE2", runC02Tiny, func(yield func(c02Tiny) bool) {
		n := 0
		for idx := int64(0); idx < 10; idx++ {
			for _, item := range vals {
				for _, s0 := range vals {
					for _, s1 := range s1s {
						n++
						if n%nsh != shard {
							continue
						}
						// pre: the genuine root for (item, idx&3, path), and a wrong one; post: genuine-after-deletion, pre, wrong
						path := []*big.Int{big.NewInt(s0), big.NewInt(s1)}
						gpre := ref.Fold(h, big.NewInt(item), big.NewInt(idx&3), path).Int64()
						gpost := ref.Fold(h, big.NewInt(0), big.NewInt(idx&3), path).Int64()
						for _, pre := range []int64{gpre, (gpre + 1) % 47} {
							for _, post := range []int64{gpost, pre, (gpost + 3) % 47} {
								base := c02Tiny{Kind: "e2t", P: 47, Depth: 2, Pre: pre, Idx: idx, Item: item, Sib: []int64{s0, s1}, Post: post}
								honest := base
								honest.Strat = &HintStrategy{}
								if !yield(honest) {
									return
								}
								for ans := int64(0); ans < 10; ans++ {
									for iz := int64(0); iz < 47; iz++ {
										c := base
										st := &HintStrategy{IZ: "value", IZValue: big.NewInt(iz)}
										if ans < 8 {
											st.NB, st.Other = "other", big.NewInt(ans)
										} else if ans == 8 {
											st.NB, st.J = "digit2", 0
										} else {
											st.NB, st.J = "digit2", 1
										}
										c.Strat = st
										if !yield(c) {
											return
										}
									}
								}
							}
						}
					}
				}
			}
		}
	})
}
