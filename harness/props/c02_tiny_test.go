//go:build g_merkle && g_poseidon

package props

import (
	"fmt"
	"math/big"
	"sync"
	"testing"

	"verifharness/ref"
	"verifharness/stats"
)

// ---------------------------------------------------------------------------
// exhaustive small scope: DeletionProof gadget, depth 1, batch 1, over tiny
// prime fields — every assignment (pre, idx, item, sibling, post) in the test
// engine; and DeletionProof on the compiled tinyfield (p = 47, depth 2) system
// with every possible prover answer for the index decomposition and the
// is-zero inverse, for sampled inputs.

type c02Tiny struct {
	Kind  string        `json:"kind"` // e1 | e2t
	P     int64         `json:"p"`
	Depth int           `json:"depth"`
	Pre   int64         `json:"pre"`
	Idx   int64         `json:"idx"`
	Item  int64         `json:"item"`
	Sib   []int64       `json:"sib"`
	Post  int64         `json:"post"`
	Strat *HintStrategy `json:"strat,omitempty"`
}

func (c c02Tiny) witness() *ref.DelWitness {
	path := make([]*big.Int, len(c.Sib))
	for i, s := range c.Sib {
		path[i] = big.NewInt(s)
	}
	return &ref.DelWitness{Depth: c.Depth, Batch: 1, Idx: []*big.Int{big.NewInt(c.Idx)}, Pre: big.NewInt(c.Pre), Post: big.NewInt(c.Post),
		Ids: []*big.Int{big.NewInt(c.Item)}, Paths: [][]*big.Int{path}}
}

var (
	c02TinyMu   sync.Mutex
	c02TinyComp = map[int]*TinyCompiled{}
)

func runC02Tiny(c c02Tiny) Result {
	p := big.NewInt(c.P)
	h, err := tinyH2(p)
	if err != nil {
		return bad("tiny", "harness:tiny-poseidon", "%v", err)
	}
	w := c.witness()
	reason := ref.RDel(p, h, w)
	relOK := reason == ""
	regime := "real"
	if c.Idx >= 1<<uint(c.Depth+1) {
		regime = "unprovable"
	} else if c.Idx >= 1<<uint(c.Depth) {
		regime = "padding"
	}
	class := fmt.Sprintf("tiny-%s/p=%d/depth=%d/%s/%v", c.Kind, c.P, c.Depth, regime, relOK)
	switch c.Kind {
	case "e1":
		errG := e1DelGadget(w, p)
		if (errG == nil) != relOK {
			return bad(class, sigAccept("DeletionProof(tiny)", errG == nil, reason, regime), "p=%d pre=%d idx=%d item=%d sib=%v post=%d: accepted=%v, relation says %q", c.P, c.Pre, c.Idx, c.Item, c.Sib, c.Post, errG == nil, reason)
		}
	case "e2t":
		c02TinyMu.Lock()
		cc, okk := c02TinyComp[c.Depth]
		if !okk {
			cc, err = CompileTiny(delGadgetCircuit(c.Depth, 1))
			if err == nil {
				c02TinyComp[c.Depth] = cc
			}
		}
		c02TinyMu.Unlock()
		if err != nil {
			return bad(class, "harness:compile", "%v", err)
		}
		acc, _ := cc.Solve(delGadgetAssign(w), c.Strat)
		if acc && !relOK {
			return bad(class, sigAccept("DeletionProof(tinyfield R1CS)", true, reason, regime), "pre=%d idx=%d item=%d sib=%v post=%d strat=%+v: compiled system accepted, relation says %q", c.Pre, c.Idx, c.Item, c.Sib, c.Post, c.Strat, reason)
		}
		if !acc && relOK && c.Strat.Honest() {
			return bad(class, sigAccept("DeletionProof(tinyfield R1CS)", false, reason, regime), "pre=%d idx=%d item=%d sib=%v post=%d: compiled system rejected a valid slot under the honest prover", c.Pre, c.Idx, c.Item, c.Sib, c.Post)
		}
		if !c.Strat.Honest() {
			class += "/adversarial"
		}
	}
	return ok(class, true)
}

func init() {
	registerReplay("TestC02_TinyE1", runC02Tiny)
	registerReplay("TestC02_TinyE2", runC02Tiny)
}

func TestC02_TinyE1(t *testing.T) {
	col := stats.New("C02", "TestC02_TinyE1")
	defer col.Flush()
	col.SetExhaustive(true)
	primes := []int64{7}
	if Thorough() {
		primes = []int64{7, 11, 13}
	}
	shard, nsh := Shard(), NShards()
	runTinyEnum(t, col, "C02", "TestC02_TinyE1", runC02Tiny, func(yield func(c02Tiny) bool) {
		n := 0
		for _, p := range primes {
			for pre := int64(0); pre < p; pre++ {
				for idx := int64(0); idx < p; idx++ {
					n++
					if n%nsh != shard {
						continue
					}
					for item := int64(0); item < p; item++ {
						for sib := int64(0); sib < p; sib++ {
							for post := int64(0); post < p; post++ {
								if !yield(c02Tiny{Kind: "e1", P: p, Depth: 1, Pre: pre, Idx: idx, Item: item, Sib: []int64{sib}, Post: post}) {
									return
								}
							}
						}
					}
				}
			}
		}
	})
}

// TestC02_TinyE2: compiled tinyfield system, depth 2, batch 1. For inputs on a
// grid (every index 0..9, a spread of values) every prover answer is tried:
// all 8 boolean answers for the 3-bit index decomposition plus two non-boolean
// ones, times all 47 values for the is-zero inverse.
func TestC02_TinyE2(t *testing.T) {
	col := stats.New("C02", "TestC02_TinyE2")
	defer col.Flush()
	col.SetExhaustive(true)
	p := TinyP
	h, err := tinyH2(p)
	if err != nil {
		t.Fatal(err)
	}
	vals := []int64{0, 5, 46}
	s1s := []int64{7}
	if Thorough() {
		vals = []int64{0, 1, 2, 5, 23, 45, 46}
		s1s = []int64{0, 7}
	}
	shard, nsh := Shard(), NShards()
	runTinyEnum(t, col, "C02", "TestC02_TinyE2", runC02Tiny, func(yield func(c02Tiny) bool) {
		n := 0
		for idx := int64(0); idx < 10; idx++ {
			for _, item := range vals {
				for _, s0 := range vals {
					for _, s1 := range s1s {
						n++
						if n%nsh != shard {
							continue
						}
						// pre: the genuine root for (item, idx&3, path), and a wrong one; post: genuine-after-deletion, pre, wrong
						path := []*big.Int{big.NewInt(s0), big.NewInt(s1)}
						gpre := ref.Fold(h, big.NewInt(item), big.NewInt(idx&3), path).Int64()
						gpost := ref.Fold(h, big.NewInt(0), big.NewInt(idx&3), path).Int64()
						for _, pre := range []int64{gpre, (gpre + 1) % 47} {
							for _, post := range []int64{gpost, pre, (gpost + 3) % 47} {
								base := c02Tiny{Kind: "e2t", P: 47, Depth: 2, Pre: pre, Idx: idx, Item: item, Sib: []int64{s0, s1}, Post: post}
								honest := base
								honest.Strat = &HintStrategy{}
								if !yield(honest) {
									return
								}
								for ans := int64(0); ans < 10; ans++ {
									for iz := int64(0); iz < 47; iz++ {
										c := base
										st := &HintStrategy{IZ: "value", IZValue: big.NewInt(iz)}
										if ans < 8 {
											st.NB, st.Other = "other", big.NewInt(ans)
										} else if ans == 8 {
											st.NB, st.J = "digit2", 0
										} else {
											st.NB, st.J = "digit2", 1
										}
										c.Strat = st
										if !yield(c) {
											return
										}
									}
								}
							}
						}
					}
				}
			}
		}
	})
}
