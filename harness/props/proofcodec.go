package props

import (
	"encoding/json"
	"fmt"
	"math/big"
	"reflect"
	"strings"

	"github.com/consensys/gnark-crypto/ecc"
	"github.com/consensys/gnark-crypto/ecc/bn254"
	"github.com/consensys/gnark-crypto/ecc/bn254/fp"
	"github.com/consensys/gnark/backend/groth16"
	"github.com/consensys/gnark/backend/witness"
	"github.com/consensys/gnark/frontend"
)

// R-proof: an independent proof codec. It reads and writes the eight affine
// coordinates of a gnark BN254 Groth16 proof through reflection on the
// exported fields Ar, Bs, Krs (the concrete type lives in a gnark internal
// package) and has its own JSON reader/writer.

// Coordinate order used everywhere below (the EVM order):
// A.x, A.y, B.x.A1, B.x.A0, B.y.A1, B.y.A0, C.x, C.y
type coords [8]*big.Int

func fpBig(e *fp.Element) *big.Int { return e.BigInt(new(big.Int)) }

func proofCoords(p groth16.Proof) (c coords, err error) {
	defer func() {
		if r := recover(); r != nil {
			err = fmt.Errorf("proof reflection: %v", r)
		}
	}()
	v := reflect.ValueOf(p).Elem()
	ar := v.FieldByName("Ar").Interface().(bn254.G1Affine)
	bs := v.FieldByName("Bs").Interface().(bn254.G2Affine)
	krs := v.FieldByName("Krs").Interface().(bn254.G1Affine)
	c = coords{fpBig(&ar.X), fpBig(&ar.Y), fpBig(&bs.X.A1), fpBig(&bs.X.A0), fpBig(&bs.Y.A1), fpBig(&bs.Y.A0), fpBig(&krs.X), fpBig(&krs.Y)}
	return
}

func pointsFromCoords(c coords) (ar bn254.G1Affine, bs bn254.G2Affine, krs bn254.G1Affine) {
	ar.X.SetBigInt(c[0])
	ar.Y.SetBigInt(c[1])
	bs.X.A1.SetBigInt(c[2])
	bs.X.A0.SetBigInt(c[3])
	bs.Y.A1.SetBigInt(c[4])
	bs.Y.A0.SetBigInt(c[5])
	krs.X.SetBigInt(c[6])
	krs.Y.SetBigInt(c[7])
	return
}

// proofFromCoords builds a gnark proof value with the given points.
func proofFromCoords(c coords) (groth16.Proof, error) {
	ar, bs, krs := pointsFromCoords(c)
	if !ar.IsOnCurve() || !krs.IsOnCurve() || !bs.IsOnCurve() || !bs.IsInSubGroup() {
		return nil, fmt.Errorf("coordinates do not describe valid group elements")
	}
	p := groth16.NewProof(ecc.BN254)
	v := reflect.ValueOf(p).Elem()
	v.FieldByName("Ar").Set(reflect.ValueOf(ar))
	v.FieldByName("Bs").Set(reflect.ValueOf(bs))
	v.FieldByName("Krs").Set(reflect.ValueOf(krs))
	return p, nil
}

// parseProofJSON is the harness's own reader of {"ar":[..],"bs":[[..],[..]],"krs":[..]}.
func parseProofJSON(raw []byte) (c coords, err error) {
	var d struct {
		Ar  []string   `json:"ar"`
		Bs  [][]string `json:"bs"`
		Krs []string   `json:"krs"`
	}
	dec := json.NewDecoder(strings.NewReader(string(raw)))
	dec.DisallowUnknownFields()
	if err = dec.Decode(&d); err != nil {
		return
	}
	var extra json.RawMessage
	if dec.Decode(&extra) == nil {
		return c, fmt.Errorf("more than one JSON value")
	}
	if len(d.Ar) != 2 || len(d.Krs) != 2 || len(d.Bs) != 2 || len(d.Bs[0]) != 2 || len(d.Bs[1]) != 2 {
		return c, fmt.Errorf("wrong proof shape")
	}
	flat := []string{d.Ar[0], d.Ar[1], d.Bs[0][0], d.Bs[0][1], d.Bs[1][0], d.Bs[1][1], d.Krs[0], d.Krs[1]}
	for i, s := range flat {
		if c[i], err = parseHex(s); err != nil {
			return
		}
	}
	return
}

// writeProofJSON is the harness's own writer; pad64 zero-pads every
// coordinate to 64 hex digits, as other tools emit them.
func writeProofJSON(c coords, pad64 bool) []byte {
	f := func(v *big.Int) string {
		if pad64 {
			return fmt.Sprintf(`"0x%064s"`, v.Text(16))
		}
		return `"0x` + v.Text(16) + `"`
	}
	return []byte(fmt.Sprintf(`{"ar":[%s,%s],"bs":[[%s,%s],[%s,%s]],"krs":[%s,%s]}`, f(c[0]), f(c[1]), f(c[2]), f(c[3]), f(c[4]), f(c[5]), f(c[6]), f(c[7])))
}

func (c coords) equal(o coords) bool {
	for i := range c {
		if c[i] == nil || o[i] == nil || c[i].Cmp(o[i]) != 0 {
			return false
		}
	}
	return true
}

func (c coords) shortCount() (n int, shortest int, positions []int) {
	shortest = 32
	for i, v := range c {
		l := len(v.Bytes())
		if l < 32 {
			n++
			positions = append(positions, i)
		}
		if l < shortest {
			shortest = l
		}
	}
	return
}

// pubOnly is the harness's own one-public-input circuit shape, used to build
// public witnesses independently of the code under test.
type pubOnly struct {
	InputHash frontend.Variable `gnark:",public"`
}

func (c *pubOnly) Define(api frontend.API) error { return nil }

func publicWitness(hash *big.Int) (witness.Witness, error) {
	return frontend.NewWitness(&pubOnly{InputHash: new(big.Int).Mod(hash, ecc.BN254.ScalarField())}, ecc.BN254.ScalarField(), frontend.PublicOnly())
}

// verifyIndependent checks a proof against a verifying key and public input
// with gnark's verifier and a public witness the harness builds.
func verifyIndependent(p groth16.Proof, vk groth16.VerifyingKey, hash *big.Int) error {
	w, err := publicWitness(hash)
	if err != nil {
		return err
	}
	return groth16.Verify(p, vk, w)
}
