package props

import (
	"bytes"
	"fmt"
	"net"
	"os"
	"path/filepath"
	"testing"
	"time"

	"pgregory.net/rapid"

	"worldcoin/gnark-mbu/prover"

	"verifharness/stats"
)

// C15 — a truncated proving-system file is always rejected, never half-loaded.

type c15Case struct {
	Kind   string     `json:"kind"` // small | real
	Shape  SmallShape `json:"shape"`
	Format string     `json:"format"` // compressed | raw
	Via    string     `json:"via"`    // reader | file | cli-<command>
	Offset int        `json:"offset"` // the file ends after this many bytes
	Len    int        `json:"len"`
	Mode   string     `json:"mode,omitempty"`
}

type sysImage struct {
	data         []byte
	pkEnd, vkEnd int // section boundaries: header = 8, pk = [8,pkEnd), vk = [pkEnd,vkEnd), cs = [vkEnd,len)
	fullRead     time.Duration
	shape        SmallShape
	format, mode string
	// real systems: a valid parameter document, a valid proof for it and its hash (CLI probes)
	validParams, validProof, validHash string
}

func imageOf(ps *prover.ProvingSystem, format string) (*sysImage, error) {
	data, _, err := writeSystem(ps, format == "raw")
	if err != nil {
		return nil, err
	}
	c, err := canonOf(ps)
	if err != nil {
		return nil, err
	}
	img := &sysImage{data: data, format: format}
	// sizes of the sections in this format
	var pkLen, vkLen int
	if format == "raw" {
		pkLen, vkLen = len(c.PK), len(c.VK)
	} else {
		var cnt countingWriter
		if _, err := ps.ProvingKey.WriteTo(&cnt); err != nil {
			return nil, err
		}
		pkLen = cnt.n
		cnt.n = 0
		if _, err := ps.VerifyingKey.WriteTo(&cnt); err != nil {
			return nil, err
		}
		vkLen = cnt.n
	}
	img.pkEnd = 8 + pkLen
	img.vkEnd = img.pkEnd + vkLen
	if img.vkEnd+len(c.CS) != len(data) {
		return nil, fmt.Errorf("section arithmetic: 8+%d+%d+%d != %d", pkLen, vkLen, len(c.CS), len(data))
	}
	t0 := time.Now()
	_, _, err, pan := safeRead(data)
	img.fullRead = time.Since(t0)
	if err != nil || pan != nil {
		return nil, fmt.Errorf("positive control: the complete %s file does not load: %v %v", format, err, pan)
	}
	return img, nil
}

type countingWriter struct{ n int }

func (c *countingWriter) Write(p []byte) (int, error) { c.n += len(p); return len(p), nil }

func (img *sysImage) section(off int) string {
	switch {
	case off < 8:
		return "header"
	case off < img.pkEnd:
		return "proving-key"
	case off < img.vkEnd:
		return "verifying-key"
	default:
		return "constraint-system"
	}
}

// checkPrefix reads data[:off] and applies the oracle.
func checkPrefix(img *sysImage, off int, via string) (sig, msg string) {
	prefix := img.data[:off]
	limit := 50*img.fullRead + 5*time.Second
	switch {
	case via == "reader":
		type outcome struct {
			err error
			pan any
		}
		ch := make(chan outcome, 1)
		go func() {
			_, _, err, pan := safeRead(prefix)
			ch <- outcome{err, pan}
		}()
		judge := func(o outcome) (string, string) {
			if o.pan != nil {
				return "UnsafeReadFrom:panic:" + img.section(off), fmt.Sprintf("%s file of %d bytes cut at %d (%s): panic: %v", img.format, len(img.data), off, img.section(off), o.pan)
			}
			if o.err == nil {
				return "UnsafeReadFrom:prefix-accepted:" + img.section(off), fmt.Sprintf("%s file of %d bytes cut at %d (%s) was loaded without error", img.format, len(img.data), off, img.section(off))
			}
			return "", ""
		}
		select {
		case o := <-ch:
			return judge(o)
		case <-time.After(limit):
			// Not a verdict yet: on a loaded machine a goroutine can starve for seconds. Keep waiting for the SAME read and
			// start a control read of the complete file; a hang is reported only if the read is still silent minutes later
			// while the control, started after it, came back promptly.
			ctrl := make(chan time.Duration, 1)
			go func() {
				t0 := time.Now()
				safeRead(img.data)
				ctrl <- time.Since(t0)
			}()
			select {
			case o := <-ch:
				return judge(o)
			case <-time.After(3 * time.Minute):
				select {
				case d := <-ctrl:
					if d < 20*time.Second {
						return "UnsafeReadFrom:hang:" + img.section(off), fmt.Sprintf("%s file cut at %d: no answer within %v, while a read of the complete file started later took %v", img.format, off, limit+3*time.Minute, d)
					}
					return "harness:overloaded", fmt.Sprintf("read of a truncated file silent for %v, control read took %v", limit+3*time.Minute, d)
				default:
					return "harness:overloaded", "neither the truncated nor the control read answered within minutes"
				}
			}
		}
	case via == "file":
		dir, err := os.MkdirTemp(os.Getenv("VERIF_WORK"), "c15-")
		if err != nil {
			return "harness:tempdir", err.Error()
		}
		defer os.RemoveAll(dir)
		path := filepath.Join(dir, "cut.ps")
		if err := os.WriteFile(path, prefix, 0o644); err != nil {
			return "harness:write", err.Error()
		}
		var ps *prover.ProvingSystem
		var pan any
		func() {
			defer func() { pan = recover() }()
			ps, err = prover.ReadSystemFromFile(path)
		}()
		if pan != nil {
			return "ReadSystemFromFile:panic:" + img.section(off), fmt.Sprintf("cut at %d: panic: %v", off, pan)
		}
		if err == nil {
			_ = ps
			return "ReadSystemFromFile:prefix-accepted:" + img.section(off), fmt.Sprintf("%s file of %d bytes cut at %d (%s): ReadSystemFromFile returned no error", img.format, len(img.data), off, img.section(off))
		}
	default: // cli-<command>
		cmd := via[4:]
		dir, err := os.MkdirTemp(os.Getenv("VERIF_WORK"), "c15-")
		if err != nil {
			return "harness:tempdir", err.Error()
		}
		defer os.RemoveAll(dir)
		path := filepath.Join(dir, "cut.ps")
		if err := os.WriteFile(path, prefix, 0o644); err != nil {
			return "harness:write", err.Error()
		}
		var args []string
		var stdin []byte
		switch cmd {
		case "prove":
			// valid parameters: only the keys file can be at fault
			args = []string{"prove", "--mode", img.mode, "--keys-file", path}
			stdin = []byte(img.validParams)
		case "verify":
			// a valid proof for the right hash: only the keys file can be at fault
			args = []string{"verify", "--mode", img.mode, "--keys-file", path, "--input-hash", img.validHash}
			stdin = []byte(img.validProof)
		case "export-vk":
			args = []string{"export-vk", "--keys-file", path, "--output", filepath.Join(dir, "vk")}
		case "convert-to-raw":
			args = []string{"convert-to-raw", "--input", path, "--output", filepath.Join(dir, "out.ps")}
		case "start":
			pa, ma := freeAddr(), freeAddr()
			args = []string{"start", "--mode", img.mode, "--keys-file", path, "--prover-address", pa, "--metrics-address", ma}
		}
		var r cliResult
		if cmd == "start" {
			// 'start' must fail; the positive sign of the opposite is a prover address that accepts connections. No time
			// limit decides: the process is watched until it exits or listens (minutes of patience on a loaded machine).
			pa := args[len(args)-3]
			var listening bool
			r, listening = runCLIUntil(limit+5*time.Minute, stdin, nil, func() bool {
				c, err := net.DialTimeout("tcp", pa, 200*time.Millisecond)
				if err != nil {
					return false
				}
				c.Close()
				return true
			}, args...)
			if listening {
				return "cli-start:serves-truncated-file:" + img.section(off), fmt.Sprintf("'start' on a %s file cut at %d (%s) opened the prover address %s instead of failing", img.format, off, img.section(off), pa)
			}
			if r.TimedOut {
				return "harness:overloaded", fmt.Sprintf("'start' on a truncated file neither exited nor listened within %v", limit+5*time.Minute)
			}
		} else {
			r = runCLI(limit+20*time.Second, stdin, nil, args...)
			if r.TimedOut {
				// a hang needs a control: the same command on the COMPLETE file, started afterwards, must come back promptly
				// while a second, patient run on the truncated file stays silent
				full := filepath.Join(dir, "full.ps")
				if err := os.WriteFile(full, img.data, 0o644); err != nil {
					return "harness:write", err.Error()
				}
				cargs := append([]string(nil), args...)
				for i := range cargs {
					if cargs[i] == path {
						cargs[i] = full
					}
				}
				t0 := time.Now()
				ctl := runCLI(3*time.Minute, stdin, nil, cargs...)
				ctlTook := time.Since(t0)
				again := runCLI(limit+3*time.Minute, stdin, nil, args...)
				cliTimeouts.Store(0)
				if again.TimedOut && !ctl.TimedOut && ctlTook < 30*time.Second {
					return "cli-" + cmd + ":hang:" + img.section(off), fmt.Sprintf("'%s' on a file cut at %d did not exit within %v (the same command on the complete file took %v)", cmd, off, limit+3*time.Minute, ctlTook)
				}
				if again.TimedOut {
					return "harness:overloaded", fmt.Sprintf("'%s' timed out on the truncated file; control on the complete file took %v", cmd, ctlTook)
				}
				r = again
			}
		}
		if bytes.Contains(r.Stderr, []byte("panic:")) || bytes.Contains(r.Stderr, []byte("goroutine 1 [running]")) {
			return "cli-" + cmd + ":panic:" + img.section(off), fmt.Sprintf("'%s' on a %s file cut at %d (%s) panicked: %s", cmd, img.format, off, img.section(off), tail(r.Stderr, 300))
		}
		if r.ExitCode == 0 {
			return "cli-" + cmd + ":exit0:" + img.section(off), fmt.Sprintf("'%s' on a %s file cut at %d (%s) exited with status 0", cmd, img.format, off, img.section(off))
		}
	}
	return "", ""
}

func structuredOffsets(img *sysImage) []int {
	n := len(img.data)
	set := map[int]bool{}
	add := func(o int) {
		if o >= 0 && o < n {
			set[o] = true
		}
	}
	for o := 0; o <= 8; o++ {
		add(o)
	}
	for _, b := range []int{8, img.pkEnd, img.vkEnd} {
		for _, d := range []int{0, 1, 2, 7, 8, 9, 63, 64, 65, -1, -2, -8, -64} {
			add(b + d)
		}
	}
	add(n - 1)
	add(n - 2)
	add(n - 9)
	out := []int{}
	for o := range set {
		out = append(out, o)
	}
	sortInts(out)
	return out
}

func sortInts(a []int) {
	for i := 1; i < len(a); i++ {
		for j := i; j > 0 && a[j] < a[j-1]; j-- {
			a[j], a[j-1] = a[j-1], a[j]
		}
	}
}

func runC15(c c15Case) Result {
	// replay path: rebuild a system of the same shape (keys are random, the layout is what matters)
	var ps *prover.ProvingSystem
	var err error
	if c.Kind == "small" {
		ps, err = newSmallSystem(c.Shape)
	} else {
		ps, err = getSystem(c.Mode, int(c.Shape.Depth), int(c.Shape.Batch))
	}
	if err != nil {
		return bad(c.Kind, "harness:setup", "%v", err)
	}
	img, err := imageOf(ps, c.Format)
	if err != nil {
		return bad(c.Kind, "harness:image", "%v", err)
	}
	img.mode = c.Mode
	if c.Kind == "real" {
		if m := fixedValidParamsDims(c.Mode, int(c.Shape.Depth), int(c.Shape.Batch)); m != nil {
			img.validParams = m.writeDoc(styleHexLower)
			img.validHash = "0x" + m.InputHash.Text(16)
			if p, err := proveParams(ps, m); err == nil {
				if cs, err := proofCoords(p.Proof); err == nil {
					img.validProof = string(writeProofJSON(cs, true))
				}
			}
		}
	}
	off := c.Offset
	if off >= len(img.data) {
		off = len(img.data) - 1
	}
	class := fmt.Sprintf("%s/%s/%s/%s", c.Kind, c.Format, c.Via, img.section(off))
	if sig, msg := checkPrefix(img, off, c.Via); sig != "" {
		return bad(class, sig, "%s", msg)
	}
	return ok(class, off >= 8)
}

func init() {
	registerReplay("TestC15_SmallAllOffsets", runC15)
	registerReplay("TestC15_Real", runC15)
}

// TestC15_SmallAllOffsets: for each drawn small system and both formats,
// EVERY cut offset 0..len-1 through the reader (fault enumeration), plus a
// sample of offsets through ReadSystemFromFile.
func TestC15_SmallAllOffsets(t *testing.T) {
	col := stats.New("C15", "TestC15_SmallAllOffsets")
	defer col.Flush()
	col.SetExhaustive(true)
	registerReplay("TestC15_SmallAllOffsets", runC15)
	files := 0
	rapid.Check(t, func(rt *rapid.T) {
		shape := genSmallShape(rt)
		ps, err := newSmallSystem(shape)
		if err != nil {
			rt.Fatalf("harness: %v", err)
		}
		for _, format := range []string{"compressed", "raw"} {
			img, err := imageOf(ps, format)
			if err != nil {
				rt.Fatalf("harness: %v", err)
			}
			files++
			fileEvery := rapid.IntRange(97, 211).Draw(rt, "file_stride")
			for off := 0; off < len(img.data); off++ {
				vias := []string{"reader"}
				if off%fileEvery == 0 || off == len(img.data)-1 {
					vias = append(vias, "file")
				}
				for _, via := range vias {
					c := c15Case{Kind: "small", Shape: shape, Format: format, Via: via, Offset: off, Len: len(img.data)}
					class := fmt.Sprintf("small/%s/%s/%s", format, via, img.section(off))
					if sig, msg := checkPrefix(img, off, via); sig != "" {
						res := bad(class, sig, "%s", msg)
						if m := handle(col, "C15", "TestC15_SmallAllOffsets", c, res); m != "" {
							fmt.Printf("VIOLATION property=C15 replay=%s\n", replayPath("C15", "TestC15_SmallAllOffsets"))
							rt.Fatalf("%s", m)
						}
						continue
					}
					col.CountEnumerated(class, off >= 8, func() any { return c })
				}
			}
		}
	})
	col.Extra("files_enumerated_completely", files)
}

// TestC15_Real: real proving systems (tens of MB): structured offsets (header,
// section boundaries +-, file end) and rapid-drawn offsets inside each section.
func TestC15_Real(t *testing.T) {
	col := stats.New("C15", "TestC15_Real")
	defer col.Flush()
	type dim struct {
		mode         string
		depth, batch int
	}
	dims := []dim{{"insertion", 1, 1}}
	if Thorough() {
		dims = []dim{{"insertion", 1, 1}, {"deletion", 3, 2}}
	}
	d := dims[Shard()%len(dims)]
	format := pick2((Shard()/len(dims))%2 == 0, "raw", "compressed")
	ps, err := getSystem(d.mode, d.depth, d.batch)
	if err != nil {
		t.Fatal(err)
	}
	img, err := imageOf(ps, format)
	if err != nil {
		t.Fatal(err)
	}
	img.mode = d.mode
	if m := fixedValidParamsDims(d.mode, d.depth, d.batch); m != nil {
		img.validParams = m.writeDoc(styleHexLower)
		img.validHash = "0x" + m.InputHash.Text(16)
		if p, err := proveParams(ps, m); err == nil {
			if cs, err := proofCoords(p.Proof); err == nil {
				img.validProof = string(writeProofJSON(cs, true))
			}
		}
	}
	if img.validProof == "" {
		t.Fatalf("harness: could not prepare a valid proof for the CLI probes")
	}
	shape := SmallShape{Depth: uint32(d.depth), Batch: uint32(d.batch)}
	report := func(c c15Case, class, sig, msg string) bool {
		if sig == "" {
			col.Case(class, c.Offset >= 8, c)
			col.Oracle("held")
			return true
		}
		res := bad(class, sig, "%s", msg)
		if m := handle(col, "C15", "TestC15_Real", c, res); m != "" {
			fmt.Printf("VIOLATION property=C15 replay=%s\n", replayPath("C15", "TestC15_Real"))
			t.Errorf("%s", m)
			return false
		}
		return true
	}
	for _, off := range structuredOffsets(img) {
		c := c15Case{Kind: "real", Shape: shape, Format: format, Via: "reader", Offset: off, Len: len(img.data), Mode: d.mode}
		sig, msg := checkPrefix(img, off, "reader")
		if !report(c, fmt.Sprintf("real/%s/reader/%s/structured", format, img.section(off)), sig, msg) {
			return
		}
	}
	// ReadSystemFromFile reads through a 4 MiB buffer: cut the file exactly at (and next to) multiples of the buffer size
	step := 4 << 20
	for k := 1; k*step < len(img.data); k++ {
		if !Thorough() && k > 6 && k%4 != 0 {
			continue
		}
		deltas := []int{0}
		if Thorough() {
			deltas = []int{-1, 0, 1}
		}
		for _, dl := range deltas {
			off := k*step + dl
			if off >= len(img.data) {
				continue
			}
			c := c15Case{Kind: "real", Shape: shape, Format: format, Via: "file", Offset: off, Len: len(img.data), Mode: d.mode}
			sig, msg := checkPrefix(img, off, "file")
			if !report(c, fmt.Sprintf("real/%s/file/%s/buffer-multiple", format, img.section(off)), sig, msg) {
				return
			}
		}
	}
	// the command-line paths on a handful of cut points (each command reads the file its own way)
	if cliPath() != "" {
		n := len(img.data)
		probes := []int{n - 1, n - 1000, img.vkEnd + (n-img.vkEnd)/2, img.vkEnd + 1, img.pkEnd + 10, 8 + (img.pkEnd-8)/2, 4}
		cmds := []string{"cli-convert-to-raw", "cli-export-vk", "cli-verify", "cli-prove"}
		for pi, off := range probes {
			if off <= 0 || off >= n {
				continue
			}
			for ci, cmdName := range cmds {
				if !Thorough() && (pi+ci)%2 == 1 {
					continue // quick: half of the grid, every command and every cut point still occur
				}
				c := c15Case{Kind: "real", Shape: shape, Format: format, Via: cmdName, Offset: off, Len: n, Mode: d.mode}
				sig, msg := checkPrefix(img, off, cmdName)
				if !report(c, fmt.Sprintf("real/%s/%s/%s/cli-grid", format, cmdName, img.section(off)), sig, msg) {
					return
				}
			}
		}
		for _, off := range []int{n - 1000, img.pkEnd + 10} {
			c := c15Case{Kind: "real", Shape: shape, Format: format, Via: "cli-start", Offset: off, Len: n, Mode: d.mode}
			sig, msg := checkPrefix(img, off, "cli-start")
			if !report(c, fmt.Sprintf("real/%s/cli-start/%s/cli-grid", format, img.section(off)), sig, msg) {
				return
			}
		}
	}
	cliCmds := []string{"cli-prove", "cli-verify", "cli-export-vk", "cli-convert-to-raw", "cli-start"}
	rapid.Check(t, func(rt *rapid.T) {
		sec := pick(rt, "section", "proving-key", "proving-key", "verifying-key", "constraint-system", "constraint-system")
		var lo, hi int
		switch sec {
		case "proving-key":
			lo, hi = 8, img.pkEnd
		case "verifying-key":
			lo, hi = img.pkEnd, img.vkEnd
		default:
			lo, hi = img.vkEnd, len(img.data)
		}
		off := rapid.IntRange(lo, hi-1).Draw(rt, "offset")
		via := "reader"
		switch rapid.IntRange(0, 9).Draw(rt, "via") {
		case 0:
			via = "file"
		case 1:
			if cliPath() != "" && Thorough() {
				via = pick(rt, "cli", cliCmds...)
			}
		}
		c := c15Case{Kind: "real", Shape: shape, Format: format, Via: via, Offset: off, Len: len(img.data), Mode: d.mode}
		sig, msg := checkPrefix(img, off, via)
		if !report(c, fmt.Sprintf("real/%s/%s/%s/drawn", format, via, img.section(off)), sig, msg) {
			rt.Fatalf("violation")
		}
	})
	col.Extra("file_bytes", len(img.data))
	col.Extra("full_read_ms", int(img.fullRead.Milliseconds()))
}
