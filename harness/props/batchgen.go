package props

import (
	"math/big"

	"pgregory.net/rapid"

	"verifharness/ref"
)

// Generators shared by the circuit-level checks (C01, C02, C03, C07, C09...):
// tree histories and witness-level batches with valid and invalid classes.

type history struct {
	Depth int
	Tree  *ref.Tree   // current state
	Old   []*ref.Tree // earlier states (for stale paths)
	Steps int
	Holes []uint64 // leaves that were occupied and then deleted
}

func maxLeaf(depth int) uint64 { return uint64(1)<<uint(depth) - 1 }

// genHistory runs a small rapid state machine over the reference tree:
// insert-at-next-free, insert-at-random-empty, delete-random-occupied, overwrite.
func genHistory(t *rapid.T, depth int, maxSteps int) *history {
	h := &history{Depth: depth, Tree: ref.NewTreeH(depth, ref.MemoH2())}
	n := rapid.IntRange(0, maxSteps).Draw(t, "hist_steps")
	last := maxLeaf(depth)
	next := uint64(0)
	for s := 0; s < n; s++ {
		if s%3 == 0 {
			h.Old = append(h.Old, h.Tree.Clone())
		}
		occ := h.Tree.Occupied()
		switch rapid.IntRange(0, 5).Draw(t, "hist_op") {
		case 0, 1: // insert at next free
			if next <= last {
				h.Tree.Set(next, genNonZeroField(t, "hv"))
				next++
			}
		case 2: // insert at a random empty leaf
			i := rapid.Uint64Range(0, last).Draw(t, "hi")
			if h.Tree.Get(i).Sign() == 0 {
				h.Tree.Set(i, genNonZeroField(t, "hv"))
				if i >= next {
					next = i + 1
				}
			}
		case 3, 4: // delete a random occupied leaf (creates a hole)
			if len(occ) > 0 {
				i := occ[rapid.IntRange(0, len(occ)-1).Draw(t, "hd")]
				h.Tree.Set(i, big.NewInt(0))
				h.Holes = append(h.Holes, i)
			}
		case 5: // overwrite
			if len(occ) > 0 {
				i := occ[rapid.IntRange(0, len(occ)-1).Draw(t, "ho")]
				h.Tree.Set(i, genNonZeroField(t, "hv"))
			}
		}
		h.Steps++
	}
	return h
}

func (h *history) nextFree() uint64 {
	occ := h.Tree.Occupied()
	if len(occ) == 0 {
		return 0
	}
	return occ[len(occ)-1] + 1
}

func genCommitment(t *rapid.T, label string, prev []*big.Int) *big.Int {
	switch rapid.IntRange(0, 7).Draw(t, label+"_ck") {
	case 0:
		return big.NewInt(0)
	case 1:
		return big.NewInt(1)
	case 2:
		return new(big.Int).Sub(ref.R, big.NewInt(1))
	case 3:
		if len(prev) > 0 {
			return ref.Clone(prev[rapid.IntRange(0, len(prev)-1).Draw(t, label+"_dup")])
		}
	}
	return genField(t, label)
}

// ---------------------------------------------------------------------------
// insertion batches

// buildValidInsertion writes ids sequentially at start (which must address
// empty leaves inside the tree) and returns the witness; tree is mutated.
func buildValidInsertion(tree *ref.Tree, start uint64, ids []*big.Int) *ref.InsWitness {
	w := &ref.InsWitness{Depth: tree.Depth, Batch: len(ids), Start: new(big.Int).SetUint64(start), Pre: tree.Root(), Ids: ref.CloneSlice(ids)}
	for i, id := range ids {
		idx := start + uint64(i)
		w.Paths = append(w.Paths, tree.Path(idx))
		tree.Set(idx, id)
	}
	w.Post = tree.Root()
	return w
}

func runEmpty(tree *ref.Tree, start uint64, n int) bool {
	last := maxLeaf(tree.Depth)
	for i := 0; i < n; i++ {
		idx := start + uint64(i)
		if idx > last || idx < start || tree.Get(idx).Sign() != 0 {
			return false
		}
	}
	return true
}

// genInsertion draws one insertion batch (valid or invalid) on the history's
// current state. It returns the generation class and the witness.
func genInsertion(t *rapid.T, h *history, batch int) (string, *ref.InsWitness) {
	depth := h.Depth
	last := maxLeaf(depth)
	ids := make([]*big.Int, batch)
	for i := range ids {
		ids[i] = genCommitment(t, "id", ids[:i])
	}
	// pick a valid start if one exists among the interesting candidates
	cands := []struct {
		name string
		s    uint64
	}{}
	if nf := h.nextFree(); nf <= last {
		cands = append(cands, struct {
			name string
			s    uint64
		}{"valid-next", nf})
	}
	if uint64(batch) <= last+1 || depth >= 6 {
		if last+1 >= uint64(batch) {
			cands = append(cands, struct {
				name string
				s    uint64
			}{"valid-last", last + 1 - uint64(batch)})
		}
	}
	for _, hole := range h.Holes {
		cands = append(cands, struct {
			name string
			s    uint64
		}{"valid-holes", hole})
	}
	cands = append(cands, struct {
		name string
		s    uint64
	}{"valid-random", rapid.Uint64Range(0, last).Draw(t, "rnd_start")})
	var valid []int
	for i, c := range cands {
		if runEmpty(h.Tree, c.s, batch) {
			valid = append(valid, i)
		}
	}
	kind := rapid.IntRange(0, 19).Draw(t, "ins_kind")
	if len(valid) == 0 {
		// no room for a valid batch (small full trees): build an arbitrary one on whatever leaves exist
		s := rapid.Uint64Range(0, last).Draw(t, "any_start")
		w := forceInsertion(h.Tree.Clone(), s, ids)
		return "no-room", w
	}
	pickv := cands[valid[rapid.IntRange(0, len(valid)-1).Draw(t, "vstart")]]
	work := h.Tree.Clone()
	w := buildValidInsertion(work, pickv.s, ids)
	if kind <= 5 {
		return pickv.name, w
	}
	// invalid (usually) by one mutation
	switch kind {
	case 6: // a slot on an occupied leaf with that leaf's genuine path
		occ := h.Tree.Occupied()
		if len(occ) == 0 {
			return pickv.name, w
		}
		o := occ[rapid.IntRange(0, len(occ)-1).Draw(t, "occ")]
		s := o
		slot := rapid.IntRange(0, batch-1).Draw(t, "occ_slot")
		if uint64(slot) <= o {
			s = o - uint64(slot)
		}
		return "occupied-leaf", forceInsertion(h.Tree.Clone(), s, ids)
	case 7: // all paths taken from the pre-state
		for i := range w.Paths {
			w.Paths[i] = h.Tree.Path(pickv.s + uint64(i))
		}
		return "parallel-stale", w
	case 8: // stale path from an earlier history state
		if len(h.Old) == 0 {
			return pickv.name, w
		}
		old := h.Old[rapid.IntRange(0, len(h.Old)-1).Draw(t, "old")]
		slot := rapid.IntRange(0, batch-1).Draw(t, "stale_slot")
		w.Paths[slot] = old.Path(pickv.s + uint64(slot))
		return "stale-path", w
	case 9: // one corrupted sibling
		slot := rapid.IntRange(0, batch-1).Draw(t, "c_slot")
		lvl := rapid.IntRange(0, depth-1).Draw(t, "c_lvl")
		w.Paths[slot][lvl] = addMod(w.Paths[slot][lvl], pick(t, "c_delta", int64(1), -1, 2))
		return "corrupted-sibling", w
	case 10: // paths of two slots swapped / reused
		if batch < 2 {
			w.Post = addMod(w.Post, 1)
			return "wrong-post", w
		}
		a := rapid.IntRange(0, batch-1).Draw(t, "sw_a")
		b := rapid.IntRange(0, batch-1).Draw(t, "sw_b")
		if rapid.Bool().Draw(t, "reuse") {
			w.Paths[a] = ref.CloneSlice(w.Paths[b])
			return "reused-path", w
		}
		w.Paths[a], w.Paths[b] = w.Paths[b], w.Paths[a]
		return "swapped-paths", w
	case 11: // wrong post root
		switch rapid.IntRange(0, 3).Draw(t, "post_kind") {
		case 0:
			w.Post = ref.Clone(w.Pre)
			return "post=pre", w
		case 1:
			// root after batch-1 slots
			tr := h.Tree.Clone()
			for i := 0; i < batch-1; i++ {
				tr.Set(pickv.s+uint64(i), ids[i])
			}
			w.Post = tr.Root()
			return "post-after-b-1", w
		case 2:
			tr := work.Clone()
			if nx := pickv.s + uint64(batch); nx <= last {
				tr.Set(nx, genNonZeroField(t, "extra"))
			}
			w.Post = tr.Root()
			return "post-after-b+1", w
		default:
			w.Post = genField(t, "rnd_post")
			return "post-random", w
		}
	case 12: // start +-1 with unchanged paths
		if rapid.Bool().Draw(t, "pm") {
			w.Start = new(big.Int).Add(w.Start, big.NewInt(1))
		} else {
			w.Start = new(big.Int).Mod(new(big.Int).Sub(w.Start, big.NewInt(1)), ref.R)
		}
		return "start-shifted", w
	case 13: // start past the end: 2^d - batch + 1 .. 2^d, paths genuine for the in-tree part
		over := rapid.IntRange(1, batch).Draw(t, "over")
		s := new(big.Int).SetUint64(last + 1 - uint64(batch) + uint64(over))
		if last+1 < uint64(batch) {
			s = new(big.Int).SetUint64(last)
		}
		ww := forceInsertionBig(h.Tree.Clone(), s, ids)
		return "start-past-end", ww
	case 14: // aliased start s + 2^d
		w.Start = new(big.Int).Add(w.Start, ref.Pow2(depth))
		return "start-aliased-2^d", w
	case 15: // start >= 2^32
		w.Start = new(big.Int).Add(w.Start, ref.Pow2(32))
		return "start>=2^32", w
	case 16: // wrap-around the field order
		w.Start = new(big.Int).Sub(ref.R, big.NewInt(int64(rapid.IntRange(1, batch).Draw(t, "wrap"))))
		if rapid.Bool().Draw(t, "wrap_paths0") {
			// paths for indices 0.. as if the wrapped positions were in-tree
			ww := forceInsertion(h.Tree.Clone(), 0, ids)
			ww.Start = w.Start
			return "start-wraps-field", ww
		}
		return "start-wraps-field", w
	case 17: // last leaf then one past it
		s := new(big.Int).SetUint64(last)
		return "start=last-leaf", forceInsertionBig(h.Tree.Clone(), s, ids)
	case 18: // a commitment changed after the fact (post no longer matches)
		slot := rapid.IntRange(0, batch-1).Draw(t, "id_slot")
		w.Ids[slot] = addMod(w.Ids[slot], 1)
		return "id-changed", w
	default: // pre-root replaced
		w.Pre = addMod(w.Pre, 1)
		return "pre-changed", w
	}
}

// forceInsertion builds a witness at start regardless of validity: each slot
// gets the current genuine path of its leaf (indices past the tree wrap onto
// idx mod 2^depth so that a path exists), then the id is written there.
func forceInsertion(tree *ref.Tree, start uint64, ids []*big.Int) *ref.InsWitness {
	return forceInsertionBig(tree, new(big.Int).SetUint64(start), ids)
}

func forceInsertionBig(tree *ref.Tree, start *big.Int, ids []*big.Int) *ref.InsWitness {
	w := &ref.InsWitness{Depth: tree.Depth, Batch: len(ids), Start: ref.Clone(start), Pre: tree.Root(), Ids: ref.CloneSlice(ids)}
	mask := new(big.Int).Sub(ref.Pow2(tree.Depth), big.NewInt(1))
	for i, id := range ids {
		idx := new(big.Int).Add(start, big.NewInt(int64(i)))
		li := new(big.Int).And(idx, mask).Uint64()
		w.Paths = append(w.Paths, tree.Path(li))
		tree.Set(li, id)
	}
	w.Post = tree.Root()
	return w
}

// ---------------------------------------------------------------------------
// deletion batches

// genDeletion draws one deletion batch slot by slot on the history's state.
func genDeletion(t *rapid.T, h *history, batch int) (string, []string, *ref.DelWitness) {
	depth := h.Depth
	last := maxLeaf(depth)
	work := h.Tree.Clone()
	w := &ref.DelWitness{Depth: depth, Batch: batch, Pre: work.Root()}
	classes := map[string]bool{}
	garbage := func(label string) *big.Int {
		return pick(t, label, big.NewInt(0), new(big.Int).Sub(ref.R, big.NewInt(1)), genField(t, label+"_r"), big.NewInt(7))
	}
	allPadding := rapid.IntRange(0, 11).Draw(t, "all_padding") == 0
	for i := 0; i < batch; i++ {
		occ := work.Occupied()
		kind := rapid.IntRange(0, 13).Draw(t, "slot_kind")
		if allPadding {
			kind = 7
		}
		var idx *big.Int
		var item *big.Int
		var path []*big.Int
		switch {
		case kind <= 3 && len(occ) > 0: // genuine deletion
			li := occ[rapid.IntRange(0, len(occ)-1).Draw(t, "g_i")]
			idx, item, path = new(big.Int).SetUint64(li), work.Get(li), work.Path(li)
			work.Set(li, big.NewInt(0))
			classes["genuine"] = true
		case kind == 4: // an already-empty leaf presenting 0
			li := rapid.Uint64Range(0, last).Draw(t, "e_i")
			idx, item, path = new(big.Int).SetUint64(li), work.Get(li), work.Path(li)
			work.Set(li, big.NewInt(0))
			classes["already-empty-or-genuine"] = true
		case kind == 5 && i > 0: // duplicate of an earlier index: presenting 0 (valid) or the old value (invalid)
			prev := rapid.IntRange(0, i-1).Draw(t, "dup_of")
			idx = ref.Clone(w.Idx[prev])
			if idx.Cmp(ref.Pow2(depth)) < 0 {
				li := idx.Uint64()
				path = work.Path(li)
				if rapid.Bool().Draw(t, "dup_zero") {
					item = work.Get(li)
					classes["duplicate-current"] = true
				} else {
					item = ref.Clone(w.Ids[prev])
					classes["duplicate-old-value"] = true
				}
				work.Set(li, big.NewInt(0))
			} else {
				item, path = garbage("dup_item"), make([]*big.Int, depth)
				for j := range path {
					path[j] = garbage("dup_path")
				}
				classes["duplicate-padding"] = true
			}
		case kind == 6 && i > 0 && w.Idx[i-1].Cmp(ref.Pow2(depth)) < 0: // dependent sibling with sequential or pre-state path
			li := w.Idx[i-1].Uint64() ^ 1
			idx, item = new(big.Int).SetUint64(li), work.Get(li)
			if rapid.Bool().Draw(t, "dep_seq") {
				path = work.Path(li)
				classes["dependent-sequential"] = true
			} else {
				path = h.Tree.Path(li)
				classes["dependent-prestate-path"] = true
			}
			work.Set(li, big.NewInt(0))
		case kind == 7 || kind == 8: // padding with arbitrary contents
			var off uint64
			switch rapid.IntRange(0, 3).Draw(t, "pad_k") {
			case 0:
				off = 0
			case 1:
				off = last
			default:
				off = rapid.Uint64Range(0, last).Draw(t, "pad_off")
			}
			idx = new(big.Int).Add(ref.Pow2(depth), new(big.Int).SetUint64(off))
			path = make([]*big.Int, depth)
			if rapid.Bool().Draw(t, "pad_genuine_data") && len(occ) > 0 {
				// padding slot that happens to carry a genuine membership proof for the leaf its low bits address
				li := occ[rapid.IntRange(0, len(occ)-1).Draw(t, "pad_gi")]
				idx = new(big.Int).Add(ref.Pow2(depth), new(big.Int).SetUint64(li))
				item, path = work.Get(li), work.Path(li)
				classes["padding-genuine-data"] = true
			} else {
				item = garbage("pad_item")
				for j := range path {
					path[j] = garbage("pad_path")
				}
			}
			classes["padding"] = true
		case kind == 9: // wrong presented value with the genuine path
			li := rapid.Uint64Range(0, last).Draw(t, "w_i")
			if len(occ) > 0 && rapid.Bool().Draw(t, "w_occ") {
				li = occ[rapid.IntRange(0, len(occ)-1).Draw(t, "w_oi")]
			}
			idx, item, path = new(big.Int).SetUint64(li), addMod(work.Get(li), pick(t, "w_d", int64(1), -1, 5)), work.Path(li)
			work.Set(li, big.NewInt(0))
			classes["wrong-value"] = true
		case kind == 10: // stale or corrupted path
			li := rapid.Uint64Range(0, last).Draw(t, "s_i")
			if len(occ) > 0 {
				li = occ[rapid.IntRange(0, len(occ)-1).Draw(t, "s_oi")]
			}
			idx, item, path = new(big.Int).SetUint64(li), work.Get(li), work.Path(li)
			if len(h.Old) > 0 && rapid.Bool().Draw(t, "s_old") {
				path = h.Old[rapid.IntRange(0, len(h.Old)-1).Draw(t, "s_which")].Path(li)
				classes["stale-path"] = true
			} else {
				lvl := rapid.IntRange(0, depth-1).Draw(t, "s_lvl")
				path[lvl] = addMod(path[lvl], 1)
				classes["corrupted-path"] = true
			}
			work.Set(li, big.NewInt(0))
		case kind == 11: // index beyond the padding range
			idx = ref.Clone(pick(t, "big_idx",
				ref.Pow2(depth+1), new(big.Int).Add(ref.Pow2(depth+1), big.NewInt(int64(rapid.IntRange(1, 9).Draw(t, "bk")))),
				new(big.Int).Sub(ref.Pow2(32), big.NewInt(1)), ref.Pow2(32), new(big.Int).Sub(ref.R, big.NewInt(1)),
				new(big.Int).Add(ref.Pow2(depth+1), new(big.Int).SetUint64(rapid.Uint64Range(0, last).Draw(t, "alias")))))
			li := new(big.Int).And(idx, new(big.Int).SetUint64(last)).Uint64()
			item, path = work.Get(li), work.Path(li)
			classes["index-too-large"] = true
		case kind == 12: // a slot that is valid for idx mod 2^(depth+1), presented with a multiple of 2^(depth+1) added
			base := rapid.Uint64Range(0, 2*last+1).Draw(t, "al_base") // real or padding index
			if len(occ) > 0 && rapid.Bool().Draw(t, "al_occ") {
				base = occ[rapid.IntRange(0, len(occ)-1).Draw(t, "al_oi")]
			}
			mult := pick(t, "al_mult", uint64(1), 2, 3, 1<<8, 1<<(30-uint(depth)))
			if depth >= 30 {
				mult = 1
			}
			idx = new(big.Int).Add(new(big.Int).SetUint64(base), new(big.Int).Lsh(new(big.Int).SetUint64(mult), uint(depth+1)))
			if rapid.IntRange(0, 4).Draw(t, "al_2^32") == 0 {
				// consistent for a circuit that only looks at the low 32 bits (expressible at the witness level only)
				idx = new(big.Int).Add(new(big.Int).SetUint64(base), ref.Pow2(32))
			}
			if base <= last {
				item, path = work.Get(base), work.Path(base)
				work.Set(base, big.NewInt(0)) // the batch is consistent for a circuit that ignores the high bits
			} else {
				item, path = garbage("al_item"), make([]*big.Int, depth)
				for j := range path {
					path[j] = garbage("al_path")
				}
			}
			classes["index-aliased-consistent"] = true
		default: // genuine if possible, else an empty leaf
			li := rapid.Uint64Range(0, last).Draw(t, "d_i")
			if len(occ) > 0 {
				li = occ[rapid.IntRange(0, len(occ)-1).Draw(t, "d_oi")]
			}
			idx, item, path = new(big.Int).SetUint64(li), work.Get(li), work.Path(li)
			work.Set(li, big.NewInt(0))
			classes["genuine"] = true
		}
		w.Idx = append(w.Idx, idx)
		w.Ids = append(w.Ids, item)
		w.Paths = append(w.Paths, path)
	}
	w.Post = work.Root()
	switch rapid.IntRange(0, 9).Draw(t, "dpost") {
	case 0:
		w.Post = ref.Clone(w.Pre)
		classes["post=pre"] = true
	case 1:
		w.Post = genField(t, "dpost_r")
		classes["post-random"] = true
	case 2:
		w.Post = addMod(w.Post, 1)
		classes["post+1"] = true
	}
	name := "none"
	for _, k := range delClassPriority {
		if classes[k] {
			name = k
			break
		}
	}
	all := []string{}
	for _, k := range delClassPriority {
		if classes[k] {
			all = append(all, k)
		}
	}
	return name, all, w
}

var delClassPriority = []string{"index-aliased-consistent", "index-too-large", "wrong-value", "stale-path", "corrupted-path", "dependent-prestate-path", "duplicate-old-value",
	"post=pre", "post-random", "post+1", "padding-genuine-data", "padding", "duplicate-padding", "duplicate-current", "dependent-sequential", "already-empty-or-genuine", "genuine"}

// genValidParamsOn draws a relation-valid parameter set on a GIVEN history (several requests can share a pre-state).
func genValidParamsOn(t *rapid.T, h *history, mode string, batch int) *mParams {
	m := &mParams{Mode: mode}
	if mode == "insertion" {
		w := genValidInsertion(t, h, batch)
		if w == nil {
			return nil
		}
		m.StartIndex, m.PreRoot, m.PostRoot, m.IdComms, m.MerkleProofs = low32(w.Start), w.Pre, w.Post, w.Ids, w.Paths
		m.InputHash = ref.Mod(ref.HashInsertion(m.StartIndex, m.PreRoot, m.PostRoot, m.IdComms))
		return m
	}
	w := genValidDeletion(t, h, batch)
	m.PreRoot, m.PostRoot, m.IdComms, m.MerkleProofs = w.Pre, w.Post, w.Ids, w.Paths
	for _, v := range w.Idx {
		m.DeletionIndices = append(m.DeletionIndices, low32(v))
	}
	m.InputHash = ref.Mod(ref.HashDeletion(m.DeletionIndices, m.PreRoot, m.PostRoot))
	return m
}

// genValidParams draws a relation-valid parameter set (with the reference
// packing hash, reduced mod r) for the given mode and dimensions.
func genValidParams(t *rapid.T, mode string, depth, batch int) *mParams {
	h := genHistory(t, depth, 8)
	m := &mParams{Mode: mode}
	if mode == "insertion" {
		w := genValidInsertion(t, h, batch)
		if w == nil {
			h = &history{Depth: depth, Tree: ref.NewTreeH(depth, ref.MemoH2())}
			w = genValidInsertion(t, h, batch)
		}
		if w == nil {
			// the batch cannot fit the tree at all (batch > 2^depth): a correctly shaped but necessarily invalid set;
			// callers that need validity recompute it from the reference relation or use feasible dimensions
			ids := make([]*big.Int, batch)
			for i := range ids {
				ids[i] = genField(t, "xid")
			}
			w = forceInsertion(ref.NewTreeH(depth, ref.MemoH2()), 0, ids)
		}
		m.StartIndex, m.PreRoot, m.PostRoot, m.IdComms, m.MerkleProofs = low32(w.Start), w.Pre, w.Post, w.Ids, w.Paths
		m.InputHash = ref.Mod(ref.HashInsertion(m.StartIndex, m.PreRoot, m.PostRoot, m.IdComms))
	} else {
		w := genValidDeletion(t, h, batch)
		m.PreRoot, m.PostRoot, m.IdComms, m.MerkleProofs = w.Pre, w.Post, w.Ids, w.Paths
		for _, v := range w.Idx {
			m.DeletionIndices = append(m.DeletionIndices, low32(v))
		}
		m.InputHash = ref.Mod(ref.HashDeletion(m.DeletionIndices, m.PreRoot, m.PostRoot))
	}
	return m
}
