package props

import (
	"encoding/json"
	"fmt"
	"math/big"
	"strings"
	"testing"
	"time"

	"pgregory.net/rapid"

	"worldcoin/gnark-mbu/prover"

	"verifharness/ref"
	"verifharness/stats"
)

// C08 — the off-chain input-hash helpers agree with the circuit and the on-chain packing.

type c08Case struct {
	Kind   string   `json:"kind"` // pure | genuine | cli
	Params *mParams `json:"params,omitempty"`
	Depth  int      `json:"depth,omitempty"`
	Batch  int      `json:"batch,omitempty"`
	Mode   string   `json:"mode,omitempty"`
}

// genFieldByLen draws a value in [0,r) by byte length first, so that values
// with leading zero bytes are the common case rather than 2 %.
func genFieldByLen(t *rapid.T, label string) *big.Int {
	n := rapid.IntRange(0, 32).Draw(t, label+"_len")
	v := new(big.Int).SetBytes(genBytes(t, n, label+"_b"))
	if n > 0 && rapid.Bool().Draw(t, label+"_top") {
		v.SetBit(v, 8*n-1, 1) // exactly n bytes long
	}
	return v.Mod(v, ref.R)
}

func genC08(t *rapid.T) c08Case {
	mode := pick(t, "mode", "insertion", "deletion")
	if rapid.IntRange(0, 3).Draw(t, "genuine") == 0 {
		// a genuine batch, so that the helper's hash can be fed to the circuit
		var depth, batch int
		if mode == "insertion" {
			depth, batch = rapid.IntRange(1, 32).Draw(t, "depth"), rapid.IntRange(1, 5).Draw(t, "batch")
		} else {
			depth, batch = rapid.IntRange(1, 31).Draw(t, "depth"), rapid.IntRange(1, 5).Draw(t, "batch")
		}
		h := genHistory(t, depth, 8)
		m := &mParams{Mode: mode, InputHash: big.NewInt(0)}
		if mode == "insertion" {
			w := genValidInsertion(t, h, batch)
			if w == nil {
				w = buildValidInsertion(ref.NewTreeH(depth, ref.MemoH2()), 0, []*big.Int{genField(t, "only")})
			}
			m.StartIndex, m.PreRoot, m.PostRoot, m.IdComms, m.MerkleProofs = low32(w.Start), w.Pre, w.Post, w.Ids, w.Paths
		} else {
			w := genValidDeletion(t, h, batch)
			m.PreRoot, m.PostRoot, m.IdComms, m.MerkleProofs = w.Pre, w.Post, w.Ids, w.Paths
			for _, v := range w.Idx {
				m.DeletionIndices = append(m.DeletionIndices, low32(v))
			}
		}
		return c08Case{Kind: "genuine", Params: m, Depth: depth, Batch: len(m.IdComms), Mode: mode}
	}
	m := &mParams{Mode: mode, InputHash: big.NewInt(0)}
	m.PreRoot = genFieldByLen(t, "pre")
	m.PostRoot = genFieldByLen(t, "post")
	batch := rapid.IntRange(0, 8).Draw(t, "batch")
	if mode == "insertion" {
		m.StartIndex = genIndex32(t, "start")
	} else {
		for i := 0; i < batch; i++ {
			m.DeletionIndices = append(m.DeletionIndices, genIndex32(t, "idx"))
		}
	}
	for i := 0; i < batch; i++ {
		m.IdComms = append(m.IdComms, genFieldByLen(t, "id"))
		m.MerkleProofs = append(m.MerkleProofs, []*big.Int{})
	}
	return c08Case{Kind: "pure", Params: m, Mode: mode}
}

func shortestLen(vs ...*big.Int) int {
	n := 32
	for _, v := range vs {
		if l := len(v.Bytes()); l < n {
			n = l
		}
	}
	return n
}

// helperHash runs the code under test's helper and the reference packing.
func helperHash(m *mParams) (got, want *big.Int, err error) {
	if m.Mode == "insertion" {
		p := m.toInsertion()
		if err = p.ComputeInputHashInsertion(); err != nil {
			return
		}
		got = new(big.Int).Set(&p.InputHash)
		want = ref.HashInsertion(m.StartIndex, m.PreRoot, m.PostRoot, m.IdComms)
	} else {
		p := m.toDeletion()
		if err = p.ComputeInputHashDeletion(); err != nil {
			return
		}
		got = new(big.Int).Set(&p.InputHash)
		want = ref.HashDeletion(m.DeletionIndices, m.PreRoot, m.PostRoot)
	}
	return
}

func c08Sig(m *mParams) string {
	site := "ComputeInputHashInsertion"
	if m.Mode == "deletion" {
		site = "ComputeInputHashDeletion"
	}
	switch {
	case len(m.PreRoot.Bytes()) < 32 || len(m.PostRoot.Bytes()) < 32:
		return site + ":root<32B"
	case shortestLen(m.IdComms...) < 32 && m.Mode == "insertion":
		return site + ":commitment<32B"
	}
	return site + ":full-width-values"
}

func circuitAccepts(m *mParams, depth int, hash *big.Int) error {
	h := ref.Mod(hash)
	if m.Mode == "insertion" {
		w := &ref.InsWitness{Depth: depth, Batch: len(m.IdComms), Start: new(big.Int).SetUint64(uint64(m.StartIndex)), Pre: m.PreRoot, Post: m.PostRoot, Ids: m.IdComms, Paths: m.MerkleProofs}
		return E1(insFullCircuit(depth, w.Batch), insFullAssign(w, h), ref.R)
	}
	w := &ref.DelWitness{Depth: depth, Batch: len(m.IdComms), Pre: m.PreRoot, Post: m.PostRoot, Ids: m.IdComms, Paths: m.MerkleProofs}
	for _, v := range m.DeletionIndices {
		w.Idx = append(w.Idx, new(big.Int).SetUint64(uint64(v)))
	}
	return E1(delFullCircuit(depth, w.Batch), delFullAssign(w, h), ref.R)
}

func runC08(c c08Case) Result {
	switch c.Kind {
	case "pure", "genuine":
		m := c.Params
		class := c.Kind + "/" + m.Mode
		got, want, err := helperHash(m)
		if err != nil {
			return bad(class, "ComputeInputHash:error", "helper returned an error: %v", err)
		}
		short := shortestLen(append([]*big.Int{m.PreRoot, m.PostRoot}, m.IdComms...)...) < 32
		bigIdx := m.StartIndex >= 1<<24
		for _, v := range m.DeletionIndices {
			if v >= 1<<24 {
				bigIdx = true
			}
		}
		if got.Cmp(want) != 0 {
			return bad(class, c08Sig(m), "%s helper returned %s, Keccak of the fixed-width on-chain packing is %s (pre %d bytes, post %d bytes, shortest commitment %d bytes)",
				m.Mode, got.Text(16), want.Text(16), len(m.PreRoot.Bytes()), len(m.PostRoot.Bytes()), shortestLen(m.IdComms...))
		}
		if c.Kind == "genuine" {
			if err := circuitAccepts(m, c.Depth, got); err != nil {
				return bad(class, c08Sig(m)+":circuit", "circuit (depth %d, batch %d) rejects the helper's hash for a valid batch: %s", c.Depth, c.Batch, errStr(err))
			}
		}
		if short {
			class += "/short-value"
		}
		return ok(class, short || bigIdx)
	case "cli", "cli-sweep":
		class := c.Kind + "/" + c.Mode
		r := runCLI(120*time.Second, nil, nil, "gen-test-params", "--mode", c.Mode, "--tree-depth", fmt.Sprint(c.Depth), "--batch-size", fmt.Sprint(c.Batch))
		if r.ExitCode != 0 || r.TimedOut {
			return bad(class, "gen-test-params:exit", "gen-test-params %s %d %d: exit %d timedOut=%v stderr=%s", c.Mode, c.Depth, c.Batch, r.ExitCode, r.TimedOut, tail(r.Stderr, 300))
		}
		m, err := parseParamsDoc(c.Mode, r.Stdout)
		if err != nil {
			return bad(class, "gen-test-params:output", "gen-test-params %s %d %d: output is not a well-formed parameter document: %v", c.Mode, c.Depth, c.Batch, err)
		}
		if len(m.IdComms) != c.Batch || len(m.MerkleProofs) != c.Batch {
			return bad(class, "gen-test-params:dimensions", "gen-test-params %s %d %d emitted %d commitments, %d proofs", c.Mode, c.Depth, c.Batch, len(m.IdComms), len(m.MerkleProofs))
		}
		var want *big.Int
		if c.Mode == "insertion" {
			want = ref.HashInsertion(m.StartIndex, m.PreRoot, m.PostRoot, m.IdComms)
		} else {
			want = ref.HashDeletion(m.DeletionIndices, m.PreRoot, m.PostRoot)
		}
		if m.InputHash.Cmp(want) != 0 {
			return bad(class, "gen-test-params:"+c08Sig(m), "gen-test-params %s depth %d batch %d: emitted inputHash %s, Keccak of the on-chain packing of the emitted fields is %s (pre %d bytes, post %d bytes)",
				c.Mode, c.Depth, c.Batch, m.InputHash.Text(16), want.Text(16), len(m.PreRoot.Bytes()), len(m.PostRoot.Bytes()))
		}
		if c.Kind == "cli-sweep" {
			if v, why := paramsValid(m, c.Depth, c.Batch); !v {
				return bad(class, "gen-test-params:invalid-batch", "gen-test-params %s depth %d batch %d: the emitted batch does not satisfy the reference relation (%s)", c.Mode, c.Depth, c.Batch, why)
			}
		} else if err := circuitAccepts(m, c.Depth, m.InputHash); err != nil {
			return bad(class, "gen-test-params:unprovable", "gen-test-params %s depth %d batch %d: emitted parameters are rejected by the circuit: %s", c.Mode, c.Depth, c.Batch, errStr(err))
		}
		if len(m.PreRoot.Bytes()) < 32 || len(m.PostRoot.Bytes()) < 32 {
			class += "/short-root"
		}
		return ok(class, true)
	}
	return bad("?", "harness:unknown-kind", "unknown kind")
}

func tail(b []byte, n int) string {
	if len(b) > n {
		b = b[len(b)-n:]
	}
	return string(b)
}

// parseParamsDoc is the harness's own strict reader of a parameter document
// (exact keys, 0x-hex strings, plain decimal uint32 indices).
func parseParamsDoc(mode string, raw []byte) (*mParams, error) {
	var d map[string]json.RawMessage
	dec := json.NewDecoder(strings.NewReader(string(raw)))
	if err := dec.Decode(&d); err != nil {
		return nil, err
	}
	var extra json.RawMessage
	if err := dec.Decode(&extra); err == nil {
		return nil, fmt.Errorf("more than one JSON value on stdout")
	}
	hex := func(key string) (*big.Int, error) {
		var s string
		if err := json.Unmarshal(d[key], &s); err != nil {
			return nil, fmt.Errorf("%s: %v", key, err)
		}
		return parseHex(s)
	}
	m := &mParams{Mode: mode}
	var err error
	if m.InputHash, err = hex("inputHash"); err != nil {
		return nil, err
	}
	if m.PreRoot, err = hex("preRoot"); err != nil {
		return nil, err
	}
	if m.PostRoot, err = hex("postRoot"); err != nil {
		return nil, err
	}
	if mode == "insertion" {
		if err := json.Unmarshal(d["startIndex"], &m.StartIndex); err != nil {
			return nil, fmt.Errorf("startIndex: %v", err)
		}
	} else {
		if err := json.Unmarshal(d["deletionIndices"], &m.DeletionIndices); err != nil {
			return nil, fmt.Errorf("deletionIndices: %v", err)
		}
	}
	var ids []string
	if err := json.Unmarshal(d["identityCommitments"], &ids); err != nil {
		return nil, fmt.Errorf("identityCommitments: %v", err)
	}
	for _, s := range ids {
		v, err := parseHex(s)
		if err != nil {
			return nil, err
		}
		m.IdComms = append(m.IdComms, v)
	}
	var proofs [][]string
	if err := json.Unmarshal(d["merkleProofs"], &proofs); err != nil {
		return nil, fmt.Errorf("merkleProofs: %v", err)
	}
	for _, row := range proofs {
		r := []*big.Int{}
		for _, s := range row {
			v, err := parseHex(s)
			if err != nil {
				return nil, err
			}
			r = append(r, v)
		}
		m.MerkleProofs = append(m.MerkleProofs, r)
	}
	return m, nil
}

func parseHex(s string) (*big.Int, error) {
	if !(strings.HasPrefix(s, "0x") || strings.HasPrefix(s, "0X")) || len(s) < 3 {
		return nil, fmt.Errorf("not a 0x-hex number: %q", s)
	}
	v, okk := new(big.Int).SetString(s[2:], 16)
	if !okk || v.Sign() < 0 {
		return nil, fmt.Errorf("not a 0x-hex number: %q", s)
	}
	return v, nil
}

// genC08CLI draws (mode, depth, batch) within gen-test-params' supported range:
// it writes batch (insertion) resp. 2*batch (deletion) consecutive leaves.
func genC08CLI(t *rapid.T) c08Case {
	mode := pick(t, "mode", "insertion", "deletion")
	maxDepth := 32
	if mode == "deletion" {
		maxDepth = 31
	}
	depth := rapid.IntRange(1, maxDepth).Draw(t, "depth")
	maxBatch := 12
	leaves := uint64(1) << uint(depth)
	need := uint64(1)
	if mode == "deletion" {
		need = 2
	}
	if leaves/need < uint64(maxBatch) {
		maxBatch = int(leaves / need)
	}
	batch := rapid.IntRange(1, maxBatch).Draw(t, "batch")
	return c08Case{Kind: "cli", Mode: mode, Depth: depth, Batch: batch}
}

func init() {
	registerReplay("TestC08_Helpers", runC08)
	registerReplay("TestC08_CLI", runC08)
	registerReplay("TestC08_CLISweep", runC08)
}

func TestC08_Helpers(t *testing.T) {
	RunRapid(t, Check[c08Case]{Prop: "C08", Test: "TestC08_Helpers", Gen: genC08, Run: runC08})
}

// TestC08_CLISweep enumerates EVERY (mode, depth, batch 1..12) that gen-test-params supports and applies the cheap
// part of the oracle: well-formed output of the requested dimensions, inputHash = reference packing hash of the
// emitted fields, and the emitted batch satisfies the reference relation (the circuit itself is run on the drawn
// sample in TestC08_CLI).
func TestC08_CLISweep(t *testing.T) {
	if cliPath() == "" {
		t.Fatal("VERIF_CLI not set")
	}
	col := stats.New("C08", "TestC08_CLISweep")
	defer col.Flush()
	col.SetExhaustive(true)
	shard, nsh := Shard(), NShards()
	RunEnum(t, col, "C08", "TestC08_CLISweep", func(yield func(c08Case) bool) {
		n := 0
		for _, mode := range []string{"insertion", "deletion"} {
			maxDepth, need := 32, uint64(1)
			if mode == "deletion" {
				maxDepth, need = 31, 2
			}
			for depth := 1; depth <= maxDepth; depth++ {
				for batch := 1; batch <= 12; batch++ {
					if uint64(batch)*need > uint64(1)<<uint(depth) {
						continue
					}
					n++
					if n%nsh != shard {
						continue
					}
					if !yield(c08Case{Kind: "cli-sweep", Mode: mode, Depth: depth, Batch: batch}) {
						return
					}
				}
			}
		}
	}, runC08)
}

func TestC08_CLI(t *testing.T) {
	if cliPath() == "" {
		t.Fatal("VERIF_CLI not set")
	}
	RunRapid(t, Check[c08Case]{Prop: "C08", Test: "TestC08_CLI", Gen: genC08CLI, Run: runC08})
}

var _ = prover.InsertionParameters{}
