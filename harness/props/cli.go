package props

import (
	"bytes"
	"context"
	"os"
	"os/exec"
	"time"
)

// E5: the gnark-mbu binary built by the driver from the current working tree.

type cliResult struct {
	Stdout   []byte
	Stderr   []byte
	ExitCode int
	TimedOut bool
	Err      error
}

func cliPath() string { return os.Getenv("VERIF_CLI") }

func runCLI(timeout time.Duration, stdin []byte, env []string, args ...string) cliResult {
	ctx, cancel := context.WithTimeout(context.Background(), timeout)
	defer cancel()
	cmd := exec.CommandContext(ctx, cliPath(), args...)
	cmd.Stdin = bytes.NewReader(stdin)
	var so, se bytes.Buffer
	cmd.Stdout, cmd.Stderr = &so, &se
	cmd.Env = append(os.Environ(), env...)
	for _, e := range env {
		if e == "VERIF_CLEAN_ENV=1" {
			// a scrubbed environment: nothing inherited, unusual but valid locale/timezone/home
			cmd.Env = append([]string{"PATH=/usr/bin:/bin", "HOME=/nonexistent", "TZ=Pacific/Kiritimati", "LANG=C", "USER=nobody", "TMPDIR=" + os.TempDir()}, env...)
		}
	}
	err := cmd.Run()
	res := cliResult{Stdout: so.Bytes(), Stderr: se.Bytes(), Err: err}
	if ctx.Err() == context.DeadlineExceeded {
		res.TimedOut = true
	}
	if cmd.ProcessState != nil {
		res.ExitCode = cmd.ProcessState.ExitCode()
	} else {
		res.ExitCode = -1
	}
	return res
}
