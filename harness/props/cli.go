package props

import (
	"bytes"
	"context"
	"os"
	"os/exec"
	"sync/atomic"
	"time"
)

// cliTimeouts counts CLI runs that hit their harness-side time limit. A time limit is never evidence about the property
// (a loaded machine can starve a process for a long time): handle() turns a violation reported by a case during which
// a CLI run timed out into a harness error (exit 2), except for the hang checks, which establish a hang with a control
// run of their own.
var cliTimeouts atomic.Int64

// E5: the gnark-mbu binary built by the driver from the current working tree.

type cliResult struct {
	Stdout   []byte
	Stderr   []byte
	ExitCode int
	TimedOut bool
	Err      error
}

func cliPath() string { return os.Getenv("VERIF_CLI") }

func runCLI(timeout time.Duration, stdin []byte, env []string, args ...string) cliResult {
	ctx, cancel := context.WithTimeout(context.Background(), timeout)
	defer cancel()
	cmd := exec.CommandContext(ctx, cliPath(), args...)
	cmd.Stdin = bytes.NewReader(stdin)
	var so, se bytes.Buffer
	cmd.Stdout, cmd.Stderr = &so, &se
	cmd.Env = append(os.Environ(), env...)
	for _, e := range env {
		if e == "VERIF_CLEAN_ENV=1" {
			// a scrubbed environment: nothing inherited, unusual but valid locale/timezone/home
			cmd.Env = append([]string{"PATH=/usr/bin:/bin", "HOME=/nonexistent", "TZ=Pacific/Kiritimati", "LANG=C", "USER=nobody", "TMPDIR=" + os.TempDir()}, env...)
		}
	}
	err := cmd.Run()
	res := cliResult{Stdout: so.Bytes(), Stderr: se.Bytes(), Err: err}
	if ctx.Err() == context.DeadlineExceeded {
		res.TimedOut = true
		cliTimeouts.Add(1)
	}
	if cmd.ProcessState != nil {
		res.ExitCode = cmd.ProcessState.ExitCode()
	} else {
		res.ExitCode = -1
	}
	return res
}

// runCLIUntil runs the binary until it exits, until stop() reports true (polled every 100 ms; the process is then
// killed and stopped=true is returned), or until the time limit.
func runCLIUntil(timeout time.Duration, stdin []byte, env []string, stop func() bool, args ...string) (res cliResult, stopped bool) {
	ctx, cancel := context.WithTimeout(context.Background(), timeout)
	defer cancel()
	cmd := exec.CommandContext(ctx, cliPath(), args...)
	cmd.Stdin = bytes.NewReader(stdin)
	var so, se bytes.Buffer
	cmd.Stdout, cmd.Stderr = &so, &se
	cmd.Env = append(os.Environ(), env...)
	if err := cmd.Start(); err != nil {
		return cliResult{Err: err, ExitCode: -1}, false
	}
	done := make(chan error, 1)
	go func() { done <- cmd.Wait() }()
	tick := time.NewTicker(100 * time.Millisecond)
	defer tick.Stop()
	for {
		select {
		case err := <-done:
			res = cliResult{Stdout: so.Bytes(), Stderr: se.Bytes(), Err: err, ExitCode: -1}
			if cmd.ProcessState != nil {
				res.ExitCode = cmd.ProcessState.ExitCode()
			}
			if ctx.Err() == context.DeadlineExceeded {
				res.TimedOut = true
			}
			return res, stopped
		case <-tick.C:
			if !stopped && stop != nil && stop() {
				stopped = true
				cancel()
			}
		}
	}
}
