package props

import (
	"fmt"
	"math/big"
	"testing"

	"pgregory.net/rapid"

	"worldcoin/gnark-mbu/prover"

	"verifharness/ref"
)

// C07 — a returned proof verifies for exactly its own input hash and proving system.

type c07Cand struct {
	Label string   `json:"label"`
	Value *big.Int `json:"value"`
}

type c07Case struct {
	Mode   string    `json:"mode"`
	Depth  int       `json:"depth"` // dimensions of the proving system
	Batch  int       `json:"batch"`
	Kind   string    `json:"kind"`
	Params *mParams  `json:"params"`
	Cands  []c07Cand `json:"candidates,omitempty"`
}

func otherMode(m string) string {
	if m == "insertion" {
		return "deletion"
	}
	return "insertion"
}

// paramsValid evaluates the reference relation and the reference packing on
// a parameter set for a system of the given dimensions.
func paramsValid(m *mParams, depth, batch int) (valid bool, why string) {
	if len(m.IdComms) != batch || len(m.MerkleProofs) != batch {
		return false, "wrong-dimensions"
	}
	if m.Mode == "deletion" && len(m.DeletionIndices) != batch {
		return false, "wrong-dimensions"
	}
	for _, row := range m.MerkleProofs {
		if len(row) != depth {
			return false, "wrong-dimensions"
		}
	}
	var canonical *big.Int
	if m.Mode == "insertion" {
		w := &ref.InsWitness{Depth: depth, Batch: batch, Start: new(big.Int).SetUint64(uint64(m.StartIndex)), Pre: ref.Mod(m.PreRoot), Post: ref.Mod(m.PostRoot), Paths: m.MerkleProofs}
		for _, v := range m.IdComms {
			w.Ids = append(w.Ids, ref.Mod(v))
		}
		if r := ref.RIns(ref.R, ref.H2, w); r != "" {
			return false, "relation:" + r
		}
		canonical = insCanonicalHash(w)
	} else {
		w := &ref.DelWitness{Depth: depth, Batch: batch, Pre: ref.Mod(m.PreRoot), Post: ref.Mod(m.PostRoot), Ids: m.IdComms, Paths: m.MerkleProofs}
		for _, v := range m.DeletionIndices {
			w.Idx = append(w.Idx, new(big.Int).SetUint64(uint64(v)))
		}
		if r := ref.RDel(ref.R, ref.H2, w); r != "" {
			return false, "relation:" + r
		}
		canonical = delCanonicalHash(w)
	}
	if ref.Mod(m.InputHash).Cmp(canonical) != 0 {
		return false, "wrong-input-hash"
	}
	return true, ""
}

// genParamsFor draws a parameter set for a system of the given dimensions:
// valid, invalid by one mutation, or of the wrong shape. Witness-level start
// indices >= 2^32 are folded to their low 32 bits (parameters carry uint32).
func genParamsFor(t *rapid.T, mode string, depth, batch int) (string, *mParams) {
	kind := pick(t, "pkind", "valid", "valid", "valid-short-hash", "valid-unreduced-hash", "invalid-batch", "invalid-batch", "invalid-batch", "focus-invalid", "focus-invalid", "wrong-hash", "wrong-shape", "wrong-shape")
	return genParamsOfKind(t, mode, depth, batch, kind)
}

// genFocusInvalid builds the parameter sets that violate exactly ONE check of the circuit while everything else
// (later roots, the packing hash of the presented values) is consistent with them: the classes that tell a circuit
// which makes the check from one that does not, too rare under the slot-by-slot generators alone.
func genFocusInvalid(t *rapid.T, mode string, depth, batch int) (string, *mParams) {
	m := genValidParams(t, mode, depth, batch)
	if mode == "insertion" {
		switch pick(t, "focus_ins", "occupied-leaf", "start-aliased") {
		case "occupied-leaf":
			h := genHistory(t, depth, 8)
			if len(h.Tree.Occupied()) == 0 {
				h.Tree.Set(rapid.Uint64Range(0, maxLeaf(depth)).Draw(t, "focus_seed_leaf"), big.NewInt(5))
			}
			occ := h.Tree.Occupied()
			o := occ[rapid.IntRange(0, len(occ)-1).Draw(t, "focus_occ")]
			slot := uint64(rapid.IntRange(0, batch-1).Draw(t, "focus_slot"))
			s := uint64(0)
			if slot <= o {
				s = o - slot
			}
			if s+uint64(batch)-1 > maxLeaf(depth) {
				return "focus:none", m
			}
			ids := make([]*big.Int, batch)
			for i := range ids {
				ids[i] = genCommitment(t, "fid", ids[:i])
			}
			w := forceInsertion(h.Tree.Clone(), s, ids)
			m.StartIndex, m.PreRoot, m.PostRoot, m.IdComms, m.MerkleProofs = low32(w.Start), w.Pre, w.Post, w.Ids, w.Paths
			m.InputHash = ref.Mod(ref.HashInsertion(m.StartIndex, m.PreRoot, m.PostRoot, m.IdComms))
			return "focus:occupied-leaf-consistent", m
		default:
			// the same batch presented with a multiple of 2^depth added to the start index (fits uint32 while depth < 32)
			if depth >= 32 {
				return "focus:none", m
			}
			room := (uint64(1)<<32 - 1 - uint64(m.StartIndex)) >> uint(depth)
			if room == 0 {
				return "focus:none", m
			}
			k := rapid.Uint64Range(1, room).Draw(t, "focus_k")
			if rapid.Bool().Draw(t, "focus_k1") {
				k = 1
			}
			m.StartIndex += uint32(k << uint(depth))
			m.InputHash = ref.Mod(ref.HashInsertion(m.StartIndex, m.PreRoot, m.PostRoot, m.IdComms))
			return "focus:start-aliased-consistent", m
		}
	}
	switch pick(t, "focus_del", "index-aliased", "index-aliased", "wrong-item") {
	case "wrong-item":
		var realSlots []int
		for i, ix := range m.DeletionIndices {
			if uint64(ix) < uint64(1)<<uint(depth) {
				realSlots = append(realSlots, i)
			}
		}
		if len(realSlots) == 0 {
			return "focus:none", m
		}
		i := realSlots[rapid.IntRange(0, len(realSlots)-1).Draw(t, "focus_del_slot")]
		m.IdComms[i] = addMod(m.IdComms[i], pick(t, "focus_del_delta", int64(1), -1, 3))
		return "focus:wrong-item-only", m
	default:
		// a valid batch with a multiple of 2^(depth+1) added to one index (real or padding slot): the low depth+1 bits
		// still address the same slot / still carry the skip bit
		if depth+1 >= 32 {
			return "focus:none", m
		}
		i := rapid.IntRange(0, batch-1).Draw(t, "focus_idx_slot")
		room := (uint64(1)<<32 - 1 - uint64(m.DeletionIndices[i])) >> uint(depth+1)
		if room == 0 {
			return "focus:none", m
		}
		k := rapid.Uint64Range(1, room).Draw(t, "focus_k")
		if rapid.Bool().Draw(t, "focus_k1") {
			k = 1
		}
		m.DeletionIndices[i] += uint32(k << uint(depth+1))
		m.InputHash = ref.Mod(ref.HashDeletion(m.DeletionIndices, m.PreRoot, m.PostRoot))
		return "focus:index-aliased-consistent", m
	}
}

func paramsHashShort(m *mParams) bool {
	if ok, _ := paramsValid(m, len(m.MerkleProofs[0]), len(m.IdComms)); !ok {
		return false
	}
	return ref.Mod(m.InputHash).BitLen() <= 248
}

func genParamsOfKind(t *rapid.T, mode string, depth, batch int, kind string) (string, *mParams) {
	switch kind {
	case "focus-invalid":
		return genFocusInvalid(t, mode, depth, batch)
	case "valid-short-hash":
		// a valid batch whose reduced input hash has at least one leading zero byte (about 1 in 49 batches): public
		// witnesses built from a byte string must right-align it
		for try := 0; try < 150; try++ {
			m := genValidParams(t, mode, depth, batch)
			if paramsHashShort(m) {
				return kind, m
			}
		}
		return "valid", genValidParams(t, mode, depth, batch)
	case "valid", "valid-unreduced-hash", "wrong-hash":
		m := genValidParams(t, mode, depth, batch)
		if kind == "valid-unreduced-hash" {
			// the 256-bit Keccak value itself (what ComputeInputHash* and the contract produce before reduction)
			if mode == "insertion" {
				m.InputHash = ref.HashInsertion(m.StartIndex, m.PreRoot, m.PostRoot, m.IdComms)
			} else {
				m.InputHash = ref.HashDeletion(m.DeletionIndices, m.PreRoot, m.PostRoot)
			}
		}
		if kind == "wrong-hash" {
			m.InputHash = addMod(m.InputHash, pick(t, "wh", int64(1), -1, 2))
		}
		return kind, m
	case "invalid-batch":
		h := genHistory(t, depth, 8)
		m := &mParams{Mode: mode}
		if mode == "insertion" {
			cls, w := genInsertion(t, h, batch)
			m.StartIndex, m.PreRoot, m.PostRoot, m.IdComms, m.MerkleProofs = low32(w.Start), w.Pre, w.Post, w.Ids, w.Paths
			m.InputHash = ref.Mod(ref.HashInsertion(m.StartIndex, m.PreRoot, m.PostRoot, m.IdComms))
			return "batch:" + cls, m
		}
		cls, _, w := genDeletion(t, h, batch)
		m.PreRoot, m.PostRoot, m.IdComms, m.MerkleProofs = w.Pre, w.Post, w.Ids, w.Paths
		for _, v := range w.Idx {
			m.DeletionIndices = append(m.DeletionIndices, low32(v))
		}
		m.InputHash = ref.Mod(ref.HashDeletion(m.DeletionIndices, m.PreRoot, m.PostRoot))
		return "batch:" + cls, m
	default: // wrong-shape
		shape := pick(t, "shape", c07Shapes...)
		return "shape:" + shape, genShapeParams(t, mode, depth, batch, shape)
	}
}

var c07Shapes = []string{"batch+1", "batch-1", "depth+1", "depth-1", "ragged", "empty", "indices-short", "ids-short",
	"proofs-extra", "proofs-extra", "ids-extra", "indices-extra", "proofs-short"}

// genShapeParams draws a parameter set whose array dimensions differ from (depth, batch) in the named way.
func genShapeParams(t *rapid.T, mode string, depth, batch int, shape string) *mParams {
	{
		b2, d2 := batch, depth
		switch shape {
		case "batch+1":
			b2++
		case "batch-1":
			b2--
		case "depth+1":
			d2++
		case "depth-1":
			d2--
		case "empty":
			b2 = 0
		}
		var m *mParams
		if b2 >= 1 && d2 >= 1 && (mode == "insertion" || d2 <= 31) {
			m = genValidParams(t, mode, d2, b2)
		} else {
			m = &mParams{Mode: mode, InputHash: big.NewInt(1), PreRoot: big.NewInt(2), PostRoot: big.NewInt(3)}
			for i := 0; i < b2; i++ {
				m.IdComms = append(m.IdComms, big.NewInt(int64(i)))
				m.MerkleProofs = append(m.MerkleProofs, make([]*big.Int, 0))
				m.DeletionIndices = append(m.DeletionIndices, uint32(i))
			}
			if mode == "insertion" {
				m.DeletionIndices = nil
			}
		}
		switch shape {
		case "ragged":
			if len(m.MerkleProofs) > 0 {
				i := rapid.IntRange(0, len(m.MerkleProofs)-1).Draw(t, "rag_i")
				if rapid.Bool().Draw(t, "rag_longer") {
					m.MerkleProofs[i] = append(m.MerkleProofs[i], big.NewInt(0))
				} else {
					m.MerkleProofs[i] = m.MerkleProofs[i][:len(m.MerkleProofs[i])-1]
				}
			}
		case "indices-short":
			if mode == "deletion" && len(m.DeletionIndices) > 0 {
				m.DeletionIndices = m.DeletionIndices[:len(m.DeletionIndices)-1]
			} else if len(m.MerkleProofs) > 0 {
				m.MerkleProofs = m.MerkleProofs[:len(m.MerkleProofs)-1]
			}
		case "ids-short":
			if len(m.IdComms) > 0 {
				m.IdComms = m.IdComms[:len(m.IdComms)-1]
			}
		// ONE array longer or shorter than the system's batch while the others fit: the valid batch is a prefix of the set
		case "proofs-extra":
			n := rapid.IntRange(1, 3).Draw(t, "extra_n")
			for i := 0; i < n; i++ {
				var row []*big.Int
				switch pick(t, "extra_row", "full", "copy", "empty", "nil", "long") {
				case "full":
					for j := 0; j < depth; j++ {
						row = append(row, genField(t, "extra_sib"))
					}
				case "copy":
					row = ref.CloneSlice(m.MerkleProofs[len(m.MerkleProofs)-1])
				case "empty":
					row = []*big.Int{}
				case "long":
					for j := 0; j < depth+1; j++ {
						row = append(row, big.NewInt(int64(j)))
					}
				}
				m.MerkleProofs = append(m.MerkleProofs, row)
			}
		case "proofs-short":
			m.MerkleProofs = m.MerkleProofs[:len(m.MerkleProofs)-1]
		case "ids-extra":
			m.IdComms = append(m.IdComms, pick(t, "extra_id", big.NewInt(0), big.NewInt(5), genField(t, "extra_idr")))
		case "indices-extra":
			if mode == "deletion" {
				m.DeletionIndices = append(m.DeletionIndices, pick(t, "extra_idx", uint32(0), uint32(1)<<uint(depth), uint32(1)<<uint(depth+1)-1))
			} else {
				m.IdComms = append(m.IdComms, ref.Clone(m.IdComms[len(m.IdComms)-1]))
			}
		}
		return m
	}
}

func genC07(mode string, dims [][2]int) func(t *rapid.T) c07Case {
	return func(t *rapid.T) c07Case {
		d := pick(t, "dims", dims...)
		kind, m := genParamsFor(t, mode, d[0], d[1])
		c := c07Case{Mode: mode, Depth: d[0], Batch: d[1], Kind: kind, Params: m}
		h := ref.Mod(m.InputHash)
		c.Cands = []c07Cand{
			{"h", h}, {"h+r", new(big.Int).Add(h, ref.R)}, {"h+2r", new(big.Int).Add(h, new(big.Int).Lsh(ref.R, 1))},
			{"h+1", addMod(h, 1)}, {"h-1", addMod(h, -1)},
			{"h^bit", ref.Mod(new(big.Int).Xor(h, ref.Pow2(rapid.IntRange(0, 252).Draw(t, "bit"))))},
			{"zero", big.NewInt(0)}, {"random", genField(t, "rnd")},
			// negative integers: representatives below zero are still representatives; negated values are other values
			{"h-r", new(big.Int).Sub(h, ref.R)}, {"h-6r", new(big.Int).Sub(h, new(big.Int).Mul(ref.R, big.NewInt(6)))},
			{"-h", new(big.Int).Neg(h)}, {"-(h+r)", new(big.Int).Neg(new(big.Int).Add(h, ref.R))},
		}
		// hash of a one-field-perturbed batch
		if mode == "insertion" {
			c.Cands = append(c.Cands, c07Cand{"perturbed-batch", ref.Mod(ref.HashInsertion(m.StartIndex+1, m.PreRoot, m.PostRoot, m.IdComms))})
		} else {
			c.Cands = append(c.Cands, c07Cand{"perturbed-batch", ref.Mod(ref.HashDeletion(m.DeletionIndices, m.PostRoot, m.PreRoot))})
		}
		return c
	}
}

func verifyWith(ps *prover.ProvingSystem, mode string, h *big.Int, p *prover.Proof) (err error) {
	defer func() {
		if r := recover(); r != nil {
			err = fmt.Errorf("panic: %v", r)
		}
	}()
	if mode == "insertion" {
		return ps.VerifyInsertion(*h, p)
	}
	return ps.VerifyDeletion(*h, p)
}

func runC07(c c07Case) Result {
	ps, err := getSystem(c.Mode, c.Depth, c.Batch)
	if err != nil {
		return bad("setup", "harness:setup", "%v", err)
	}
	other, err := getSystem(otherMode(c.Mode), c.Depth, c.Batch)
	if err != nil {
		return bad("setup", "harness:setup", "%v", err)
	}
	valid, why := paramsValid(c.Params, c.Depth, c.Batch)
	class := c.Mode + "/valid"
	if !valid {
		class = c.Mode + "/invalid:" + why
	}
	tags := []string{"gen:" + c.Kind, fmt.Sprintf("dims:%s:%dx%d", c.Mode, c.Depth, c.Batch)}
	site := "ProveInsertion"
	if c.Mode == "deletion" {
		site = "ProveDeletion"
	}
	var proof *prover.Proof
	var perr error
	var panicked any
	func() {
		defer func() { panicked = recover() }()
		if c.Mode == "insertion" {
			proof, perr = ps.ProveInsertion(c.Params.toInsertion())
		} else {
			proof, perr = ps.ProveDeletion(c.Params.toDeletion())
		}
	}()
	if panicked != nil {
		return bad(class, site+":panic:"+stripIdx(why), "%s panicked on %s parameters (%s): %v", site, c.Kind, why, panicked)
	}
	if !valid {
		if perr == nil {
			return bad(class, site+":proof-for-invalid:"+stripIdx(why), "%s returned no error for parameters that are invalid (%s, generated as %s)", site, why, c.Kind)
		}
		if proof != nil {
			return bad(class, site+":proof-with-error", "%s returned both an error and a proof (%s)", site, why)
		}
		return ok(class, true).tag(tags...)
	}
	if perr != nil || proof == nil {
		return bad(class, site+":valid-rejected", "%s failed for a valid batch (%dx%d, %s): %v", site, c.Depth, c.Batch, c.Kind, perr)
	}
	h := ref.Mod(c.Params.InputHash)
	for _, cand := range c.Cands {
		want := ref.Mod(cand.Value).Cmp(h) == 0
		verr := verifyWith(ps, c.Mode, cand.Value, proof)
		if (verr == nil) != want {
			return bad(class, fmt.Sprintf("Verify:%s:accepted=%v", cand.Label, verr == nil), "verifier of the same system with public input %s (%s): accepted=%v, want %v (%v)", cand.Value.Text(16), cand.Label, verr == nil, want, verr)
		}
		ierr := verifyIndependent(proof.Proof, ps.VerifyingKey, cand.Value)
		if (ierr == nil) != want {
			return bad(class, fmt.Sprintf("groth16.Verify:%s:accepted=%v", cand.Label, ierr == nil), "independent verification with public input %s (%s): accepted=%v, want %v", cand.Value.Text(16), cand.Label, ierr == nil, want)
		}
		tags = append(tags, "cand:"+cand.Label)
	}
	// the proving system of the other mode must reject it (through either entry point)
	if verr := verifyWith(other, otherMode(c.Mode), h, proof); verr == nil {
		return bad(class, "Verify:other-mode-system-accepts", "the %s system of the same dimensions accepted a %s proof", otherMode(c.Mode), c.Mode)
	}
	if verr := verifyWith(other, c.Mode, h, proof); verr == nil {
		return bad(class, "Verify:other-mode-system-accepts", "the %s keys accepted a %s proof", otherMode(c.Mode), c.Mode)
	}
	tags = append(tags, "cand:other-mode")
	return ok(class, true).tag(tags...)
}

func c07Dims(mode string) [][2]int {
	if Thorough() {
		if mode == "insertion" {
			return [][2]int{{3, 2}, {2, 3}, {4, 1}, {2, 4}} // an insertion batch must fit the tree
		}
		return [][2]int{{3, 2}, {2, 3}, {4, 1}, {1, 4}} // deletion batches may exceed the leaf count (padding)
	}
	return [][2]int{{3, 2}}
}

func init() {
	registerReplay("TestC07_Shapes", runC07)
	registerReplay("TestC07_Invalid", runC07)
	registerReplay("TestC07_Insertion", runC07)
	registerReplay("TestC07_Deletion", runC07)
}

// warmSystems sets up the Groth16 systems before rapid starts timing iterations
// (rapid stops early when an iteration average predicts the deadline is near).
func warmSystems(t *testing.T, depth, batch int) {
	for _, m := range []string{"insertion", "deletion"} {
		if _, err := getSystem(m, depth, batch); err != nil {
			t.Fatalf("harness: setup %s %dx%d: %v", m, depth, batch, err)
		}
	}
}

func TestC07_Insertion(t *testing.T) {
	dims := c07Dims("insertion")
	d := dims[Shard()%len(dims) : Shard()%len(dims)+1]
	warmSystems(t, d[0][0], d[0][1])
	RunRapid(t, Check[c07Case]{Prop: "C07", Test: "TestC07_Insertion", Gen: genC07("insertion", d), Run: runC07})
}

func TestC07_Deletion(t *testing.T) {
	dims := c07Dims("deletion")
	d := dims[Shard()%len(dims) : Shard()%len(dims)+1]
	warmSystems(t, d[0][0], d[0][1])
	RunRapid(t, Check[c07Case]{Prop: "C07", Test: "TestC07_Deletion", Gen: genC07("deletion", d), Run: runC07})
}

// TestC07_Shapes: every way the arrays can disagree with the system's dimensions, many instances of each (these sets are
// refused before any proving work, so hundreds are cheap).
func genC07Shapes(mode string, dims [][2]int) func(t *rapid.T) c07Case {
	return func(t *rapid.T) c07Case {
		d := pick(t, "dims", dims...)
		shape := pick(t, "shape", c07Shapes...)
		m := genShapeParams(t, mode, d[0], d[1], shape)
		return c07Case{Mode: mode, Depth: d[0], Batch: d[1], Kind: "shape:" + shape, Params: m}
	}
}

func TestC07_Shapes(t *testing.T) {
	mode := []string{"insertion", "deletion"}[Shard()%2]
	dims := c07Dims(mode)
	d := dims[(Shard()/2)%len(dims) : (Shard()/2)%len(dims)+1]
	warmSystems(t, d[0][0], d[0][1])
	RunRapid(t, Check[c07Case]{Prop: "C07", Test: "TestC07_Shapes", Gen: genC07Shapes(mode, d), Run: runC07})
}

// TestC07_Invalid: only parameter sets that the prover must refuse (invalid by one batch mutation, the single-check
// focus classes, a wrong hash): refusals cost a failed solve, not a proof, so many more of them fit the budget.
func genC07Invalid(mode string, dims [][2]int) func(t *rapid.T) c07Case {
	return func(t *rapid.T) c07Case {
		d := pick(t, "dims", dims...)
		kind := pick(t, "pkind", "invalid-batch", "invalid-batch", "focus-invalid", "focus-invalid", "wrong-hash")
		k, m := genParamsOfKind(t, mode, d[0], d[1], kind)
		return c07Case{Mode: mode, Depth: d[0], Batch: d[1], Kind: k, Params: m}
	}
}

func TestC07_Invalid(t *testing.T) {
	mode := []string{"insertion", "deletion"}[Shard()%2]
	dims := c07Dims(mode)
	d := dims[(Shard()/2)%len(dims) : (Shard()/2)%len(dims)+1]
	warmSystems(t, d[0][0], d[0][1])
	RunRapid(t, Check[c07Case]{Prop: "C07", Test: "TestC07_Invalid", Gen: genC07Invalid(mode, d), Run: runC07})
}
