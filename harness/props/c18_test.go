package props

import (
	"fmt"
	"math/big"
	"testing"

	"pgregory.net/rapid"

	"worldcoin/gnark-mbu/poseidon_tree"

	"verifharness/ref"
)

// C18 — the off-chain Poseidon tree matches a full recomputation after any history.

type c18Step struct {
	Index uint64   `json:"index"`
	Value *big.Int `json:"value"`
}

type c18Case struct {
	Depth int       `json:"depth"`
	Steps []c18Step `json:"steps"`
}

func genC18(t *rapid.T) c18Case {
	depth := pick(t, "depth", 1, 2, 3, 3, 8, 20, 31, 32, rapid.IntRange(1, 32).Draw(t, "depth_any"))
	maxSteps := 40
	if Thorough() && depth <= 8 {
		maxSteps = 200
	}
	n := rapid.IntRange(1, maxSteps).Draw(t, "nsteps")
	last := uint64(1)<<uint(depth) - 1
	var used []uint64
	var vals = map[uint64]*big.Int{}
	c := c18Case{Depth: depth}
	for s := 0; s < n; s++ {
		var idx uint64
		k := rapid.IntRange(0, 6).Draw(t, "idx_kind")
		switch {
		case k == 0:
			idx = 0
		case k == 1:
			idx = last
		case k == 2 && len(used) > 0:
			idx = used[rapid.IntRange(0, len(used)-1).Draw(t, "used")]
		case k == 3 && len(used) > 0:
			idx = used[rapid.IntRange(0, len(used)-1).Draw(t, "used")] ^ 1
		case k == 4:
			// far-apart: top bits random, low bits zero
			idx = rapid.Uint64Range(0, last).Draw(t, "far") &^ 0xff & last
		default:
			idx = rapid.Uint64Range(0, last).Draw(t, "uni")
		}
		var v *big.Int
		switch rapid.IntRange(0, 6).Draw(t, "val_kind") {
		case 6:
			// a value written earlier (possibly at another leaf)
			if len(c.Steps) > 0 {
				v = ref.Clone(c.Steps[rapid.IntRange(0, len(c.Steps)-1).Draw(t, "earlier")].Value)
			} else {
				v = big.NewInt(5)
			}
		case 0:
			v = big.NewInt(0)
		case 1:
			if pv, okk := vals[idx]; okk {
				v = ref.Clone(pv)
			} else {
				v = big.NewInt(0)
			}
		case 2:
			v = new(big.Int).Sub(ref.R, big.NewInt(1))
		case 3:
			v = big.NewInt(int64(rapid.IntRange(1, 9).Draw(t, "small")))
		default:
			v = genField(t, "v")
		}
		used = append(used, idx)
		vals[idx] = v
		c.Steps = append(c.Steps, c18Step{idx, v})
	}
	return c
}

func eqPath(a []big.Int, b []*big.Int) bool {
	if len(a) != len(b) {
		return false
	}
	for i := range a {
		if a[i].Cmp(b[i]) != 0 {
			return false
		}
	}
	return true
}

func runC18(c c18Case) Result {
	h := ref.MemoH2()
	model := ref.NewTreeH(c.Depth, h)
	tree := poseidon_tree.NewTree(c.Depth)
	class := fmt.Sprintf("depth<=%d", depthBucket(c.Depth))

	got := tree.Root()
	if got.Cmp(model.Root()) != 0 {
		return bad(class, "NewTree:initial-root", "depth %d: initial root %s != all-zero tree root %s", c.Depth, got.String(), model.Root())
	}
	overwrite, erase, bothChildren, reusedObject := false, false, false, false
	objs := map[string]*big.Int{}
	touched := map[uint64]bool{}
	// Callers keep the returned paths while they go on updating (gen-test-params collects one per batch slot and
	// serialises them at the end): a returned path must not change under later updates.
	type kept struct {
		step int
		path []big.Int
		snap []*big.Int
	}
	var retained []kept
	siblingRewritten := false
	for si, st := range c.Steps {
		prevVal := model.Get(st.Index)
		prevRoot := model.Root()
		if _, seen := model.Leaves[st.Index]; seen || touched[st.Index] {
			overwrite = true
		}
		if prevVal.Sign() != 0 && st.Value.Sign() == 0 {
			erase = true
		}
		for k := range touched {
			if k != st.Index {
				// both children of the internal node at the height of the highest differing bit
				bothChildren = true
				_ = k
				break
			}
		}
		touched[st.Index] = true

		// Callers may pass the same big.Int again (Update takes it by value, i.e. a shallow copy that shares the
		// digit array): equal values re-use one object here, while the model keeps deep copies.
		key := st.Value.String()
		obj, seen := objs[key]
		if !seen {
			obj = ref.Clone(st.Value)
			objs[key] = obj
		} else {
			reusedObject = true
		}
		path := tree.Update(int(st.Index), *obj)
		if obj.Cmp(st.Value) != 0 {
			return bad(class, "Update:writes-through-shared-value", "step %d: Update wrote through the digit array it shares with the caller: the value object passed for this and earlier leaves changed from %s to %s, so a leaf that was not updated no longer keeps its value", si, st.Value, obj)
		}
		model.Set(st.Index, st.Value)
		wantRoot, wantPath := model.RootAndPath(st.Index)
		if c.Depth <= 8 {
			if d := model.DenseRoot(); d.Cmp(wantRoot) != 0 {
				return bad(class, "harness:model-inconsistent", "sparse and dense reference roots differ at step %d", si)
			}
		}
		gotRoot := tree.Root()
		if gotRoot.Cmp(wantRoot) != 0 {
			return bad(class, "Update:root", "step %d (index %d): root %s, full recomputation gives %s", si, st.Index, gotRoot.String(), wantRoot)
		}
		if len(path) != c.Depth {
			return bad(class, "Update:path-length", "step %d: path length %d, depth %d", si, len(path), c.Depth)
		}
		if !eqPath(path, wantPath) {
			return bad(class, "Update:path", "step %d (index %d): returned sibling path differs from recomputed one", si, st.Index)
		}
		pp := make([]*big.Int, len(path))
		for i := range path {
			pp[i] = &path[i]
		}
		idx := new(big.Int).SetUint64(st.Index)
		if ref.Fold(h, prevVal, idx, pp).Cmp(prevRoot) != 0 {
			return bad(class, "Update:path-prev", "step %d: path does not authenticate previous value against previous root", si)
		}
		if ref.Fold(h, st.Value, idx, pp).Cmp(&gotRoot) != 0 {
			return bad(class, "Update:path-new", "step %d: path does not authenticate new value against new root", si)
		}
		for _, k := range retained {
			if c.Steps[k.step].Index == st.Index^1 && prevVal.Sign() != 0 && st.Value.Sign() != 0 {
				siblingRewritten = true
			}
			if !eqPath(k.path, k.snap) {
				return bad(class, "Update:retained-path-changed", "step %d (index %d): the sibling path returned by step %d (index %d) changed under this later update, so the path its caller holds no longer authenticates that leaf against the roots it was issued for", si, st.Index, k.step, c.Steps[k.step].Index)
			}
		}
		retained = append(retained, kept{si, path, ref.CloneSlice(wantPath)})
	}
	r := ok(class, overwrite || erase || bothChildren)
	if reusedObject {
		r = r.tag("same-value-object-passed-again")
	}
	if siblingRewritten {
		r = r.tag("sibling-rewritten-while-path-retained")
	}
	return r
}

func depthBucket(d int) int {
	for _, b := range []int{1, 2, 3, 8, 20, 31, 32} {
		if d <= b {
			return b
		}
	}
	return 32
}

func init() { registerReplay("TestC18_History", runC18) }

func TestC18_History(t *testing.T) {
	if err := ref.SelfCheck(); err != nil {
		t.Fatal(err)
	}
	RunRapid(t, Check[c18Case]{Prop: "C18", Test: "TestC18_History", Gen: genC18, Run: runC18})
}
