// Package props holds one generated check per listed property. Each check is a
// Go test driven by pgregory.net/rapid (or an explicit enumeration), invoked
// one test per process by /verif/check.
package props

import (
	"encoding/json"
	"fmt"
	"os"
	"path/filepath"
	"strconv"
	"strings"
	"sync"
	"testing"

	"pgregory.net/rapid"

	"verifharness/stats"
)

// Result is the outcome of evaluating one generated case against its oracle.
type Result struct {
	Class      string   // generator class, for the coverage histogram
	NonTrivial bool     // by the property's stated rule
	Sig        string   // violation signature (call site + input class); "" = held
	Msg        string   // human-readable description of the violation
	Tags       []string // extra counters for the coverage record (generator classes, strategies)
}

func (r Result) tag(tags ...string) Result {
	r.Tags = append(r.Tags, tags...)
	return r
}

func ok(class string, nontrivial bool) Result { return Result{Class: class, NonTrivial: nontrivial} }

func bad(class string, sig, format string, a ...any) Result {
	return Result{Class: class, NonTrivial: true, Sig: sig, Msg: fmt.Sprintf(format, a...)}
}

func Tier() string {
	if t := os.Getenv("VERIF_TIER"); t == "thorough" {
		return "thorough"
	}
	return "quick"
}

func Thorough() bool { return Tier() == "thorough" }

func Seed() int64 {
	s, err := strconv.ParseInt(os.Getenv("VERIF_SEED"), 10, 64)
	if err != nil || s == 0 {
		return 1
	}
	return s
}

func Shard() int {
	s, _ := strconv.Atoi(os.Getenv("VERIF_SHARD"))
	return s
}

func NShards() int {
	s, _ := strconv.Atoi(os.Getenv("VERIF_NSHARDS"))
	if s < 1 {
		return 1
	}
	return s
}

// EnvInt reads an integer knob set by the driver's plan (VERIF_N_<name>).
func EnvInt(name string, def int) int {
	if v, err := strconv.Atoi(os.Getenv("VERIF_N_" + name)); err == nil {
		return v
	}
	return def
}

func VerifDir() string {
	if d := os.Getenv("VERIF_DIR"); d != "" {
		return d
	}
	return "/verif"
}

func RepoDir() string {
	if d := os.Getenv("VERIF_REPO"); d != "" {
		return d
	}
	return "/repo"
}

// ---------------------------------------------------------------------------
// known findings

type knownEntry struct{ prop, sig, text string }

var (
	knownOnce sync.Once
	knownList []knownEntry
)

func loadKnown() {
	raw, err := os.ReadFile(filepath.Join(VerifDir(), "known_findings.txt"))
	if err != nil {
		return
	}
	for _, line := range strings.Split(string(raw), "\n") {
		line = strings.TrimSpace(line)
		if !strings.HasPrefix(line, "known:") {
			continue // "fixed:" lines and comments suppress nothing
		}
		f := strings.Fields(strings.TrimPrefix(line, "known:"))
		e := knownEntry{}
		rest := []string{}
		for _, w := range f {
			switch {
			case strings.HasPrefix(w, "property=") && e.prop == "":
				e.prop = strings.TrimPrefix(w, "property=")
			case strings.HasPrefix(w, "sig=") && e.sig == "":
				e.sig = strings.TrimPrefix(w, "sig=")
			default:
				rest = append(rest, w)
			}
		}
		e.text = strings.Join(rest, " ")
		if e.prop != "" && e.sig != "" {
			knownList = append(knownList, e)
		}
	}
}

// IsKnown reports whether (property, signature) is a listed known finding.
func IsKnown(prop, sig string) (string, bool) {
	knownOnce.Do(loadKnown)
	for _, e := range knownList {
		if e.prop == prop && e.sig == sig {
			return e.text, true
		}
	}
	return "", false
}

// ---------------------------------------------------------------------------
// replay files

type ReplayFile struct {
	Property string          `json:"property"`
	Test     string          `json:"test"`
	Seed     int64           `json:"seed"`
	Sig      string          `json:"sig"`
	Msg      string          `json:"msg"`
	Case     json.RawMessage `json:"case"`
}

func replayDir() string {
	if d := os.Getenv("VERIF_REPLAY_DIR"); d != "" {
		return d
	}
	return filepath.Join(VerifDir(), "replay")
}

func replayPath(prop, test string) string {
	return filepath.Join(replayDir(), fmt.Sprintf("%s-%s-seed%d-shard%d.json", prop, test, Seed(), Shard()))
}

func writeReplay(prop, test string, res Result, c any) string {
	raw, err := json.Marshal(c)
	if err != nil {
		raw, _ = json.Marshal(fmt.Sprint(c))
	}
	rf := ReplayFile{Property: prop, Test: test, Seed: Seed(), Sig: res.Sig, Msg: res.Msg, Case: raw}
	out, _ := json.MarshalIndent(&rf, "", " ")
	p := replayPath(prop, test)
	os.MkdirAll(filepath.Dir(p), 0o755)
	os.WriteFile(p, out, 0o644)
	return p
}

var (
	replayMu  sync.Mutex
	replayers = map[string]func(raw []byte) (Result, error){}
)

func registerReplay[C any](test string, run func(C) Result) {
	replayMu.Lock()
	defer replayMu.Unlock()
	replayers[test] = func(raw []byte) (Result, error) {
		var c C
		if err := json.Unmarshal(raw, &c); err != nil {
			return Result{}, err
		}
		return run(c), nil
	}
}

// ---------------------------------------------------------------------------
// the common property runner

// Check is one generated check: a generator, and an evaluation function that
// drives the code under test and the oracle.
type Check[C any] struct {
	Prop string
	Test string
	Gen  func(t *rapid.T) C
	Run  func(c C) Result
}

// handle records a result; on a violation it writes the replay file and
// returns a non-empty failure message unless the violation is a listed known
// finding.
func handle[C any](col *stats.Collector, prop, test string, c C, res Result) string {
	if n := cliTimeouts.Swap(0); n > 0 && res.Msg != "" && !strings.HasPrefix(res.Sig, "harness:") &&
		!strings.Contains(res.Sig, ":hang") && !strings.Contains(res.Sig, "serves-truncated") {
		// a CLI run hit the harness's time limit while this case was evaluated: whatever was concluded from it is not a verdict
		res = Result{Class: res.Class, NonTrivial: res.NonTrivial, Sig: "harness:cli-timeout", Msg: fmt.Sprintf("%d CLI run(s) hit the harness time limit (machine overloaded?); would have reported %s: %s", n, res.Sig, res.Msg)}
	}
	col.Case(res.Class, res.NonTrivial, c)
	for _, tg := range res.Tags {
		col.Oracle("tag:" + tg)
	}
	if res.Msg == "" {
		col.Oracle("held")
		return ""
	}
	if strings.HasPrefix(res.Sig, "harness:") {
		// the harness could not evaluate the case (compile failure, engine disagreement):
		// that is never a verdict about the property. The driver maps it to exit 2.
		col.Oracle("harness-error")
		return fmt.Sprintf("HARNESS-ERROR property=%s sig=%s: %s", prop, res.Sig, res.Msg)
	}
	if text, isKnown := IsKnown(prop, res.Sig); isKnown {
		col.KnownFinding(fmt.Sprintf("KNOWN-FINDING: property=%s sig=%s %s", prop, res.Sig, text))
		col.Exclude(res.Sig)
		return ""
	}
	col.Oracle("violated")
	p := writeReplay(prop, test, res, c)
	col.Violation(res.Sig, res.Msg, p)
	return fmt.Sprintf("property=%s sig=%s replay=%s: %s", prop, res.Sig, p, res.Msg)
}

// RunRapid drives a Check with rapid. The number of cases comes from
// -rapid.checks (set by the driver's plan).
func RunRapid[C any](t *testing.T, ck Check[C]) {
	col := stats.New(ck.Prop, ck.Test)
	defer col.Flush()
	registerReplay(ck.Test, ck.Run)
	RunRapidWith(t, col, ck)
}

func RunRapidWith[C any](t *testing.T, col *stats.Collector, ck Check[C]) {
	var last string
	defer func() {
		if t.Failed() && last != "" {
			fmt.Printf("VIOLATION property=%s replay=%s\n", ck.Prop, last)
		}
		col.Flush()
	}()
	rapid.Check(t, func(rt *rapid.T) {
		c := ck.Gen(rt)
		res := ck.Run(c)
		if msg := handle(col, ck.Prop, ck.Test, c, res); msg != "" {
			if !strings.HasPrefix(msg, "HARNESS-ERROR") {
				last = replayPath(ck.Prop, ck.Test)
			}
			rt.Fatalf("%s", msg)
		}
	})
}

// RunEnum drives a Check over an explicit enumeration (no rapid): exhaustive
// small-scope spaces and fixed sweeps. It stops at the first violation that is
// not a known finding.
func RunEnum[C any](t *testing.T, col *stats.Collector, prop, test string, cases func(yield func(C) bool), run func(C) Result) {
	registerReplay(test, run)
	cases(func(c C) bool {
		res := run(c)
		if msg := handle(col, prop, test, c, res); msg != "" {
			if !strings.HasPrefix(msg, "HARNESS-ERROR") {
				fmt.Printf("VIOLATION property=%s replay=%s\n", prop, replayPath(prop, test))
			}
			t.Errorf("%s", msg)
			return false
		}
		return true
	})
	col.Flush()
}

func newCol(prop, test string) *stats.Collector { return stats.New(prop, test) }
