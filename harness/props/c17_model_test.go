package props

import (
	"fmt"
	"math/big"
	"os"
	"path/filepath"
	"strings"
	"sync"
	"testing"

	"pgregory.net/rapid"

	"verifharness/ref"
)

// C17 (semantic part) — the Lean model and the compiled circuit are the same
// relation: the model is run on generated witnesses by the interpreter in
// leaninterp.go and its verdict compared with the compiled R1CS (and the
// reference relation).

type c17mCase struct {
	Source string          `json:"source"` // committed | extracted
	Mode   string          `json:"mode"`
	Class  string          `json:"class"`
	Ins    *ref.InsWitness `json:"ins,omitempty"`
	Del    *ref.DelWitness `json:"del,omitempty"`
	Public *big.Int        `json:"public"`
	PlusKR int             `json:"plusKR,omitempty"` // > 0: every 256-bit decomposition that fits is answered with v + k*r (model and circuit alike)
	// Forge: exactly one packed 256-bit value (ForgeValue) is decomposed as ForgeValue + ForgeK*r on both sides, and the
	// public input is the hash of the packing that contains that alternative encoding
	ForgeValue *big.Int `json:"forgeValue,omitempty"`
	ForgeK     int      `json:"forgeK,omitempty"`
}

var (
	c17mMu     sync.Mutex
	c17mModels = map[string]*leanModel{}
)

func c17Model(source string, depth, batch int) (*leanModel, error) {
	c17mMu.Lock()
	defer c17mMu.Unlock()
	key := fmt.Sprintf("%s/%d/%d", source, depth, batch)
	if m, okk := c17mModels[key]; okk {
		return m, nil
	}
	var text string
	if source == "committed" {
		raw, err := os.ReadFile(filepath.Join(fvDir(), "FormalVerification.lean"))
		if err != nil {
			return nil, err
		}
		text = string(raw)
	} else {
		var err error
		if text, err = extractLean(depth, batch); err != nil {
			return nil, err
		}
	}
	m, err := parseLeanModel(text)
	if err != nil {
		return nil, err
	}
	c17mModels[key] = m
	return m, nil
}

func (m *leanModel) circuitDef(prefix string) *ldef {
	for name, d := range m.defs {
		if strings.HasPrefix(name, prefix) {
			return d
		}
	}
	return nil
}

func genC17m(t *rapid.T) c17mCase { return genC17mWith(t, false) }

// genC17mFocus draws only the witnesses that violate exactly ONE assertion of the circuit while everything downstream is
// consistent with it (a write onto an occupied leaf with the post-root of that write; a deletion presenting the wrong
// item with the genuine path): the classes that tell "asserted" from "not asserted" for the two membership checks.
func genC17mFocus(t *rapid.T) c17mCase { return genC17mWith(t, true) }

func genC17mWith(t *rapid.T, focus bool) c17mCase {
	c := c17mCase{Mode: pick(t, "mode", "insertion", "deletion")}
	var depth, batch int
	if rapid.IntRange(0, 2).Draw(t, "src") == 0 {
		c.Source, depth, batch = "committed", 30, 4
	} else {
		c.Source = "extracted"
		d := pick(t, "dims", [2]int{3, 2}, [2]int{2, 3}, [2]int{1, 1}, [2]int{5, 1})
		depth, batch = d[0], d[1]
	}
	h := genHistory(t, depth, 8)
	wantValid := rapid.Bool().Draw(t, "want_valid") // half of the cases start from a relation-valid batch
	if focus {
		wantValid = c.Mode == "deletion"
		if len(h.Tree.Occupied()) == 0 {
			h.Tree.Set(rapid.Uint64Range(0, maxLeaf(depth)).Draw(t, "focus_seed_leaf"), big.NewInt(5))
		}
	}
	if c.Mode == "insertion" {
		cls, w := genInsertion(t, h, batch)
		if wantValid {
			if v := genValidInsertion(t, h, batch); v != nil {
				cls, w = "valid", v
			}
		}
		// a batch whose ONLY fault is a non-empty target leaf (post-root computed as if the write were allowed): the one
		// class that separates "emptiness asserted" from "emptiness not asserted", too rare under genInsertion alone
		if !wantValid && (focus || rapid.Bool().Draw(t, "focus_occupied")) {
			if occ := h.Tree.Occupied(); len(occ) > 0 {
				o := occ[rapid.IntRange(0, len(occ)-1).Draw(t, "focus_occ")]
				slot := uint64(rapid.IntRange(0, batch-1).Draw(t, "focus_slot"))
				s := uint64(0)
				if slot <= o {
					s = o - slot
				}
				if s+uint64(batch)-1 <= maxLeaf(depth) {
					ids := make([]*big.Int, batch)
					for i := range ids {
						ids[i] = genCommitment(t, "fid", ids[:i])
					}
					cls, w = "occupied-leaf-consistent", forceInsertion(h.Tree.Clone(), s, ids)
				}
			}
		}
		c.Class, c.Ins = cls, w
		c.Public = insCanonicalHash(w)
	} else {
		cls, _, w := genDeletion(t, h, batch)
		if wantValid {
			cls, w = "valid", genValidDeletion(t, h, batch)
		}
		if focus {
			var realSlots []int
			for i, ix := range w.Idx {
				if ix.Cmp(ref.Pow2(depth)) < 0 {
					realSlots = append(realSlots, i)
				}
			}
			if len(realSlots) > 0 {
				i := realSlots[rapid.IntRange(0, len(realSlots)-1).Draw(t, "focus_del_slot")]
				w.Ids[i] = addMod(w.Ids[i], pick(t, "focus_del_delta", int64(1), -1, 3))
				cls = "wrong-item-only"
			}
		}
		c.Class, c.Del = cls, w
		c.Public = delCanonicalHash(w)
	}
	variant := rapid.IntRange(0, 9).Draw(t, "variant")
	if focus {
		variant = 9
	}
	switch variant {
	case 0, 1:
		c.Public = addMod(c.Public, pick(t, "pm", int64(1), -1))
		c.Class += "+wrong-hash"
	case 2:
		c.PlusKR = rapid.IntRange(1, 5).Draw(t, "k")
		c.Class += "+alt-decomposition"
	case 3, 4:
		// a forged encoding of ONE packed 256-bit field (a root or a commitment)
		var fields []packField
		if c.Mode == "insertion" {
			fields = insFields(c.Ins)
		} else {
			fields = delFields(c.Del)
		}
		var cand []int
		for i, f := range fields {
			if f.W == 32 {
				cand = append(cand, i)
			}
		}
		i := cand[rapid.IntRange(0, len(cand)-1).Draw(t, "forge_field")]
		k := rapid.IntRange(1, 5).Draw(t, "forge_k")
		x := new(big.Int).Add(fields[i].V, new(big.Int).Mul(ref.R, big.NewInt(int64(k))))
		for x.BitLen() > 256 {
			k--
			x.Sub(x, ref.R)
		}
		alt := append([]packField(nil), fields...)
		alt[i] = packField{32, x}
		c.Public = packRaw(alt)
		c.ForgeValue, c.ForgeK = ref.Clone(fields[i].V), k
		c.Class += fmt.Sprintf("+forged-field%d", i)
	}
	return c
}

func runC17m(c c17mCase) Result {
	var depth, batch int
	if c.Mode == "insertion" {
		depth, batch = c.Ins.Depth, c.Ins.Batch
	} else {
		depth, batch = c.Del.Depth, c.Del.Batch
	}
	class := fmt.Sprintf("model/%s/%s/%dx%d", c.Source, c.Mode, depth, batch)
	m, err := c17Model(c.Source, depth, batch)
	if err != nil {
		return bad(class, "harness:model", "cannot load/parse the %s model: %v", c.Source, err)
	}
	if m.order.Cmp(ref.R) != 0 {
		return bad(class, "LeanModel:field-order", "the model's field order is %s", m.order)
	}
	prefix := "InsertionMbuCircuit_"
	if c.Mode == "deletion" {
		prefix = "DeletionMbuCircuit_"
	}
	def := m.circuitDef(prefix)
	if def == nil {
		return bad(class, "LeanModel:no-circuit-definition", "the %s model defines no %s*", c.Source, prefix)
	}
	byName := map[string]lval{"InputHash": lscalar(c.Public)}
	var strat *HintStrategy
	if c.Mode == "insertion" {
		byName["StartIndex"], byName["PreRoot"], byName["PostRoot"] = lscalar(ref.Mod(c.Ins.Start)), lscalar(c.Ins.Pre), lscalar(c.Ins.Post)
		byName["IdComms"], byName["MerkleProofs"] = lvector(c.Ins.Ids), lmatrix(c.Ins.Paths)
	} else {
		idx := make([]*big.Int, len(c.Del.Idx))
		for i := range idx {
			idx[i] = ref.Mod(c.Del.Idx[i])
		}
		byName["DeletionIndices"], byName["PreRoot"], byName["PostRoot"] = lvector(idx), lscalar(c.Del.Pre), lscalar(c.Del.Post)
		byName["IdComms"], byName["MerkleProofs"] = lvector(c.Del.Ids), lmatrix(c.Del.Paths)
	}
	args := make([]lval, len(def.params))
	for i, p := range def.params {
		v, okk := byName[p]
		if !okk {
			return bad(class, "LeanModel:unknown-parameter", "circuit definition %s has a parameter %s the harness cannot supply", def.name, p)
		}
		args[i] = v
	}
	m.toBinary = nil
	if c.PlusKR > 0 {
		k := c.PlusKR
		m.toBinary = func(v *big.Int, d int) []*big.Int {
			if d != 256 {
				return nil
			}
			x := new(big.Int).Add(v, new(big.Int).Mul(ref.R, big.NewInt(int64(k))))
			if x.BitLen() > d {
				return nil
			}
			return digitsOf(x, d)
		}
		strat = &HintStrategy{NB: "plus_kr", K: k, N: 256}
	}
	if c.ForgeValue != nil {
		k, target := c.ForgeK, c.ForgeValue
		m.toBinary = func(v *big.Int, d int) []*big.Int {
			if d != 256 || v.Cmp(target) != 0 {
				return nil
			}
			return digitsOf(new(big.Int).Add(v, new(big.Int).Mul(ref.R, big.NewInt(int64(k)))), d)
		}
		strat = &HintStrategy{NB: "plus_kr", K: k, N: 256, OnlyValue: ref.Clone(target)}
	}
	modelOK, err := m.satisfied(def.name, args)
	m.toBinary = nil
	if err != nil {
		return bad(class, "harness:interpreter", "%v", err)
	}
	// the compiled circuit, honest prover (or the same alternative decompositions)
	var r SolveResult
	if c.Mode == "insertion" {
		cc, err := insCompiled(depth, batch)
		if err != nil {
			return bad(class, "harness:compile", "%v", err)
		}
		r = cc.Solve(insFullAssign(c.Ins, c.Public), strat)
	} else {
		cc, err := delCompiled(depth, batch)
		if err != nil {
			return bad(class, "harness:compile", "%v", err)
		}
		r = cc.Solve(delFullAssign(c.Del, c.Public), strat)
	}
	if r.Inconsist {
		return bad(class, "harness:solver-evaluator-disagree", "solver accepted but evaluator found an unsatisfied constraint")
	}
	if modelOK != r.Accept {
		src := "freshly extracted"
		if c.Source == "committed" {
			src = "committed"
		}
		return bad(class, fmt.Sprintf("LeanModel:disagrees-with-compiled-circuit:%s:model=%v", c.Mode, modelOK),
			"the %s Lean model (%s) and the compiled %s circuit %dx%d disagree on a generated witness (class %s): model satisfied=%v, circuit satisfied=%v (%s)",
			src, def.name, c.Mode, depth, batch, c.Class, modelOK, r.Accept, errStr(r.SolverErr))
	}
	verdict := "rejected-by-both"
	if modelOK {
		verdict = "accepted-by-both"
	}
	return ok(class+"/"+verdict, true).tag("gen:" + c.Class)
}

func init() {
	registerReplay("TestC17_ModelSemantics", runC17m)
	registerReplay("TestC17_ModelFocus", runC17m)
}

func TestC17_ModelFocus(t *testing.T) {
	if _, err := c17Model("committed", 30, 4); err != nil {
		t.Logf("committed model: %v", err)
	}
	RunRapid(t, Check[c17mCase]{Prop: "C17", Test: "TestC17_ModelFocus", Gen: genC17mFocus, Run: runC17m})
}

func TestC17_ModelSemantics(t *testing.T) {
	if _, err := c17Model("committed", 30, 4); err != nil {
		t.Logf("committed model: %v", err) // reported through the cases
	}
	RunRapid(t, Check[c17mCase]{Prop: "C17", Test: "TestC17_ModelSemantics", Gen: genC17m, Run: runC17m})
}
