//go:build g_bits

package props

import (
	"github.com/consensys/gnark/frontend"
	"github.com/reilabs/gnark-lean-extractor/v2/abstractor"

	"worldcoin/gnark-mbu/prover"
)

// Harness wrapper circuits around the bit-encoding gadgets (build tag g_bits: dropped by the driver if their API changed).

// RmrcCircuit: ReducedModRCheck on a raw digit vector.
type RmrcCircuit struct {
	In []frontend.Variable
}

func (c *RmrcCircuit) Define(api frontend.API) error {
	abstractor.CallVoid(api, prover.ReducedModRCheck{Input: c.In})
	return nil
}

// TrbeCircuit: ToReducedBigEndian(V, len(Out)) must equal Out.
type TrbeCircuit struct {
	V   frontend.Variable
	Out []frontend.Variable
}

func (c *TrbeCircuit) Define(api frontend.API) error {
	bits := abstractor.Call1(api, prover.ToReducedBigEndian{Variable: c.V, Size: len(c.Out)})
	if len(bits) != len(c.Out) {
		api.AssertIsEqual(0, 1)
		return nil
	}
	for i := range bits {
		api.AssertIsEqual(bits[i], c.Out[i])
	}
	return nil
}

// FbbeCircuit: FromBinaryBigEndian(In) must equal Out.
type FbbeCircuit struct {
	In  []frontend.Variable
	Out frontend.Variable
}

func (c *FbbeCircuit) Define(api frontend.API) error {
	v := abstractor.Call(api, prover.FromBinaryBigEndian{Variable: c.In})
	api.AssertIsEqual(v, c.Out)
	return nil
}
