package props

import (
	"encoding/json"
	"fmt"
	"math/big"
	"strings"

	"pgregory.net/rapid"

	"verifharness/ref"
)

// Request grammar for /prove (C09, C13, C20). The expected outcome is fixed
// by construction and is three-valued where the statement is silent (gray).

type genReq struct {
	Method  string   `json:"method"`
	Body    string   `json:"body"`              // the body, or its head when padded
	PadLen  int      `json:"padLen,omitempty"`  // over-long bodies: this many bytes of padding are inserted
	PadAt   string   `json:"padAt,omitempty"`   // "whitespace-prefix" | "digits:<field>"
	Class   string   `json:"class"`             // grammar class
	Expect  string   `json:"expect"`            // 405 | malformed | proving_error | valid | gray
	Hash    *big.Int `json:"hash,omitempty"`    // the request's input hash (for checking a 200 body)
	Framing string   `json:"framing,omitempty"` // "" (Content-Length) | chunked | expect-continue
	Query   string   `json:"query,omitempty"`   // appended to /prove ("?x=1"): still a request to /prove
}

func (r genReq) bytes() []byte {
	if r.PadLen == 0 {
		return []byte(r.Body)
	}
	if r.PadAt == "whitespace-prefix" {
		return []byte(strings.Repeat(" ", r.PadLen) + r.Body)
	}
	// digits: a numeric string made enormous by inserting hex zeros after the 0x of the named marker
	marker := strings.TrimPrefix(r.PadAt, "digits:")
	return []byte(strings.Replace(r.Body, marker, marker+strings.Repeat("0", r.PadLen), 1))
}

var otherMethods = []string{"GET", "PUT", "DELETE", "PATCH", "HEAD", "OPTIONS"}

func marshalTree(d map[string]any) string {
	raw, _ := json.Marshal(d)
	return string(raw)
}

// genRequest draws a request and, for POSTs, its HTTP framing and (for documents) an escaped spelling.
func genRequest(t *rapid.T, mode string, depth, batch int) genReq {
	r := genRequestBody(t, mode, depth, batch)
	if rapid.IntRange(0, 7).Draw(t, "with_query") == 0 {
		// a query string does not make it another endpoint: same answer, same accounting
		r.Query = pick(t, "query", "?x=1", "?", "?mode=deletion&x=%20y", "?a=1&a=2")
	}
	if r.Method == "POST" && r.PadLen == 0 {
		r.Framing = pick(t, "framing", "", "", "", "", "chunked", "expect-continue")
		if strings.HasPrefix(r.Body, "{") && rapid.IntRange(0, 7).Draw(t, "escape") == 0 {
			// the same document with some characters of its strings spelt as \uXXXX escapes (legal JSON, same meaning)
			r.Body = escapeSomeStringChars(r.Body)
			r.Class += "+escaped"
		}
	}
	return r
}

// escapeSomeStringChars rewrites every 'x' and every '1' inside the document as a JSON unicode escape.
// Only characters inside strings of our documents are affected (keys and numeric strings contain no
// backslashes or quotes), so the result denotes the same JSON value.
func escapeSomeStringChars(doc string) string {
	var sb strings.Builder
	in := false
	for i := 0; i < len(doc); i++ {
		c := doc[i]
		if c == '"' {
			in = !in
		}
		if in && (c == 'x' || c == '1') {
			sb.WriteString(fmt.Sprintf("\\u%04x", c))
			continue
		}
		sb.WriteByte(c)
	}
	return sb.String()
}

func genRequestBody(t *rapid.T, mode string, depth, batch int) genReq {
	kind := rapid.IntRange(0, 19).Draw(t, "req_kind")
	switch {
	case kind == 0: // other method, arbitrary body
		m := pick(t, "method", otherMethods...)
		body := ""
		if rapid.Bool().Draw(t, "with_body") {
			body = genValidParams(t, mode, depth, batch).writeDoc(styleHexLower)
		}
		return genReq{Method: m, Body: body, Class: "method:" + m, Expect: "405"}
	case kind == 1: // not JSON at all
		var body string
		switch rapid.IntRange(0, 3).Draw(t, "junk") {
		case 0:
			body = ""
		case 1:
			body = string(rapid.SliceOfN(rapid.Byte(), 1, 200).Draw(t, "bytes"))
			var probe any
			if json.Unmarshal([]byte(body), &probe) == nil {
				body = "\x00" + body // keep it definitely-not-JSON
			}
		case 2:
			body = pick(t, "wrongtype", `[]`, `"x"`, `5`, `true`, `null`, `[{}]`, `1.5e3`)
		default:
			body = pick(t, "broken", `{`, `{"inputHash":`, `{"inputHash":"0x1",}`, `{'inputHash':'0x1'}`, `{"inputHash":"0x1"}}`, `{"inputHash":"0x1"} x`)
		}
		return genReq{Method: "POST", Body: body, Class: "not-a-document", Expect: "malformed"}
	case kind == 2: // truncation of a valid document
		doc := genValidParams(t, mode, depth, batch).writeDoc(styleHexLower)
		if rapid.Bool().Draw(t, "trailing") {
			// a complete VALID document followed by something: the body as a whole is not a JSON text (RFC 8259: one value
			// surrounded by white space only), hence not a well-formed parameter document - a decoder that stops after the
			// first value would prove it
			tr := pick(t, "trailer", "}", " x", "]", ",", "\n{}", " null", "\x00", "\n"+doc, "\n"+genValidParams(t, mode, depth, batch).writeDoc(styleHexLower), " 0", "\"\"")
			return genReq{Method: "POST", Body: doc + tr, Class: "trailing-data", Expect: "malformed"}
		}
		off := rapid.IntRange(0, len(doc)-1).Draw(t, "cut")
		return genReq{Method: "POST", Body: doc[:off], Class: "truncated-document", Expect: "malformed"}
	case kind <= 5: // one field of a valid document damaged
		m := genValidParams(t, mode, depth, batch)
		d := m.docTree(styleHexLower)
		switch rapid.IntRange(0, 5).Draw(t, "damage") {
		case 0: // a required hex-string field removed or renamed
			k := pick(t, "rm", "inputHash", "preRoot", "postRoot")
			v := d[k]
			delete(d, k)
			if rapid.Bool().Draw(t, "rename") {
				d[k+"X"] = v
			}
			return genReq{Method: "POST", Body: marshalTree(d), Class: "field-removed:" + k, Expect: "malformed"}
		case 1: // numeric string replaced by a non-number
			pos := numericPositions(m)
			where := pos[rapid.IntRange(0, len(pos)-1).Draw(t, "where")]
			setAt(d, where, pick(t, "what", malformedNumbers...))
			return genReq{Method: "POST", Body: marshalTree(d), Class: "non-number:" + stripIdx(where), Expect: "malformed"}
		case 2: // wrong JSON type in a numeric-string position
			pos := numericPositions(m)
			where := pos[rapid.IntRange(0, len(pos)-1).Draw(t, "where")]
			wt := pick(t, "wt", "5", "true", "[]", "{}", `["0x1"]`, "null")
			setAt(d, where, json.RawMessage(wt))
			if wt == "5" {
				// a bare JSON integer IS a number: a decoder may take it for one (then the batch is judged as such) or refuse it
				return genReq{Method: "POST", Body: marshalTree(d), Class: "bare-integer:" + stripIdx(where), Expect: "gray", Hash: m.InputHash}
			}
			return genReq{Method: "POST", Body: marshalTree(d), Class: "wrong-type:" + stripIdx(where), Expect: "malformed"}
		case 3: // index out of range / ill-typed
			what := pick(t, "idx", "-1", "4294967296", "1.5", `"3"`, "true", "[0]")
			if mode == "insertion" {
				d["startIndex"] = json.RawMessage(what)
			} else {
				arr := d["deletionIndices"].([]any)
				arr[rapid.IntRange(0, len(arr)-1).Draw(t, "i")] = json.RawMessage(what)
			}
			if what == `"3"` {
				// an in-range index written as a string: the statement leaves open whether that is well-formed
				return genReq{Method: "POST", Body: marshalTree(d), Class: "index-as-string", Expect: "gray", Hash: m.InputHash}
			}
			return genReq{Method: "POST", Body: marshalTree(d), Class: "bad-index", Expect: "malformed"}
		case 4: // array replaced by a scalar
			k := pick(t, "arr", "identityCommitments", "merkleProofs")
			d[k] = json.RawMessage(pick(t, "scalar", `"0x1"`, "7", "{}"))
			return genReq{Method: "POST", Body: marshalTree(d), Class: "array-ill-typed:" + k, Expect: "malformed"}
		default: // nested array row replaced by a string
			arr := d["merkleProofs"].([]any)
			arr[rapid.IntRange(0, len(arr)-1).Draw(t, "i")] = "0x1"
			return genReq{Method: "POST", Body: marshalTree(d), Class: "row-ill-typed", Expect: "malformed"}
		}
	case kind <= 8: // well-formed, wrong dimensions
		kindName, m := "", (*mParams)(nil)
		for {
			kindName, m = genParamsFor(t, mode, depth, batch)
			if strings.HasPrefix(kindName, "shape:") {
				break
			}
			// force a shape class
			kindName, m = "shape:forced-batch+1", genValidParams(t, mode, depth, batch+1)
			break
		}
		if rapid.IntRange(0, 9).Draw(t, "huge") == 0 {
			// 300-element arrays
			for len(m.IdComms) < 300 {
				m.IdComms = append(m.IdComms, big.NewInt(int64(len(m.IdComms))))
				m.MerkleProofs = append(m.MerkleProofs, []*big.Int{big.NewInt(1)})
				if mode == "deletion" {
					m.DeletionIndices = append(m.DeletionIndices, uint32(len(m.DeletionIndices)))
				}
			}
			kindName = "shape:300-elements"
		}
		if v, _ := paramsValid(m, depth, batch); v {
			return genReq{Method: "POST", Body: m.writeDoc(styleHexLower), Class: "valid", Expect: "valid", Hash: m.InputHash}
		}
		return genReq{Method: "POST", Body: m.writeDoc(rapid.IntRange(0, styleHex64).Draw(t, "style")), Class: kindName, Expect: "proving_error"}
	case kind <= 11: // well-formed, right dimensions, invalid batch or wrong hash
		for tries := 0; ; tries++ {
			kindName, m := genParamsFor(t, mode, depth, batch)
			v, why := paramsValid(m, depth, batch)
			if !v && why != "wrong-dimensions" {
				return genReq{Method: "POST", Body: m.writeDoc(rapid.IntRange(0, styleHex64).Draw(t, "style")), Class: "near-valid:" + stripColon(kindName), Expect: "proving_error"}
			}
			if tries > 6 {
				m = genValidParams(t, mode, depth, batch)
				m.InputHash = addMod(m.InputHash, 1)
				return genReq{Method: "POST", Body: m.writeDoc(styleHexLower), Class: "near-valid:wrong-hash", Expect: "proving_error"}
			}
		}
	case kind == 12: // over-long bodies
		m := genValidParams(t, mode, depth, batch)
		n := pick(t, "padlen", 1<<20, 2<<20, 4<<20, 4<<20, 8<<20, 16<<20)
		if rapid.Bool().Draw(t, "ws") {
			exp := "valid"
			if n >= 8<<20 {
				exp = "gray" // production batches are ~2 MiB; a server may legitimately cap bodies far above that
			}
			return genReq{Method: "POST", Body: m.writeDoc(styleHexLower), PadLen: n, PadAt: "whitespace-prefix", Class: "overlong:whitespace", Expect: exp, Hash: m.InputHash}
		}
		// a megabyte of leading zero digits in preRoot: still the same number, so still a valid batch (gray: any clean answer)
		return genReq{Method: "POST", Body: m.writeDoc(styleHexLower), PadLen: n, PadAt: `digits:"preRoot":"0x`, Class: "overlong:digits", Expect: "gray", Hash: m.InputHash}
	case kind <= 14: // gray documents: the statement does not say which answer is right
		m := genValidParams(t, mode, depth, batch)
		d := m.docTree(styleHexLower)
		g := rapid.IntRange(0, 6).Draw(t, "gray")
		switch g {
		case 0:
			d["extra"] = "field"
		case 1:
			d[pick(t, "nullarr", "identityCommitments", "merkleProofs")] = nil
		case 2: // v + r in one value
			pos := numericPositions(m)
			where := pos[rapid.IntRange(0, len(pos)-1).Draw(t, "where")]
			var v *big.Int
			switch {
			case where == "inputHash":
				v = m.InputHash
			case where == "preRoot":
				v = m.PreRoot
			case where == "postRoot":
				v = m.PostRoot
			default:
				v = nil
			}
			if v != nil {
				setAt(d, where, "0x"+new(big.Int).Add(v, ref.R).Text(16))
			}
		case 3:
			setAt(d, "preRoot", "-0x1")
		case 4:
			setAt(d, "preRoot", "0o17")
		case 5:
			setAt(d, "postRoot", "1_000")
		default:
			if mode == "insertion" {
				delete(d, "startIndex")
			} else {
				delete(d, "deletionIndices")
			}
		}
		return genReq{Method: "POST", Body: marshalTree(d), Class: fmt.Sprintf("gray:%d", g), Expect: "gray", Hash: m.InputHash}
	default: // valid
		m := genValidParams(t, mode, depth, batch)
		style := rapid.IntRange(0, styleHex64).Draw(t, "style")
		return genReq{Method: "POST", Body: m.writeDoc(style), Class: "valid", Expect: "valid", Hash: m.InputHash}
	}
}

func stripColon(s string) string {
	if i := strings.Index(s, ":"); i >= 0 {
		return s[i+1:]
	}
	return s
}

// checkResponse applies the sequential oracle of C09 to one response.
// It returns a violation signature and message, or "" when the response is right.
func checkResponse(ts *testServer, r genReq, res httpResult, limit timeLimit) (string, string) {
	if res.Err != "" {
		return "prove:no-complete-response:" + r.Expect, fmt.Sprintf("%s %s body: transport error %q after %v", r.Method, r.Class, res.Err, res.Elapsed)
	}
	if res.Elapsed > limit.d {
		return "prove:too-slow:" + r.Expect, fmt.Sprintf("%s %s: answered after %v (bound %v)", r.Method, r.Class, res.Elapsed, limit.d)
	}
	if res.Status >= 500 {
		return "prove:5xx:" + r.Expect, fmt.Sprintf("%s %s: status %d body %s", r.Method, r.Class, res.Status, tail(res.Body, 200))
	}
	wantErr := func(code string) (string, string) {
		if res.Status != 400 {
			return fmt.Sprintf("prove:status-%d-want-400-%s", res.Status, code), fmt.Sprintf("%s: status %d, want 400 %s; body %s", r.Class, res.Status, code, tail(res.Body, 200))
		}
		got, okk := errorCode(res.Body)
		if !okk {
			return "prove:error-body-shape", fmt.Sprintf("%s: 400 body is not {code,message}: %s", r.Class, tail(res.Body, 200))
		}
		if got != code {
			return "prove:code-" + got + "-want-" + code, fmt.Sprintf("%s: 400 with code %q, want %q (message: %s)", r.Class, got, code, tail(res.Body, 160))
		}
		return "", ""
	}
	wantProof := func() (string, string) {
		if err := proofVerifies(ts.PS, res.Body, r.Hash); err != nil {
			return "prove:200-without-valid-proof:" + r.Expect, fmt.Sprintf("%s: 200 but the body does not verify for the request's input hash: %v", r.Class, err)
		}
		return "", ""
	}
	switch r.Expect {
	case "405":
		if res.Status != 405 {
			return fmt.Sprintf("prove:status-%d-want-405", res.Status), fmt.Sprintf("%s %s: status %d, want 405", r.Method, r.Class, res.Status)
		}
	case "malformed":
		return wantErr("malformed_body")
	case "proving_error":
		return wantErr("proving_error")
	case "valid":
		if res.Status != 200 {
			return fmt.Sprintf("prove:status-%d-want-200", res.Status), fmt.Sprintf("%s: valid batch answered %d: %s", r.Class, res.Status, tail(res.Body, 200))
		}
		return wantProof()
	case "gray":
		switch res.Status {
		case 200:
			return wantProof()
		case 400:
			got, okk := errorCode(res.Body)
			if !okk || (got != "malformed_body" && got != "proving_error") {
				return "prove:error-body-shape", fmt.Sprintf("%s: 400 body %s", r.Class, tail(res.Body, 200))
			}
		default:
			return fmt.Sprintf("prove:status-%d-gray", res.Status), fmt.Sprintf("%s: status %d", r.Class, res.Status)
		}
	}
	return "", ""
}

// parseParamsDocLoose extracts the inputHash of a document the way the code
// under test reads numbers (base-0 big integers), for checking fuzzed 200s.
func parseParamsDocLoose(raw []byte) (*big.Int, error) {
	var d struct {
		InputHash string `json:"inputHash"`
	}
	if err := json.Unmarshal(raw, &d); err != nil {
		return nil, err
	}
	v, okk := new(big.Int).SetString(d.InputHash, 0)
	if !okk {
		return nil, fmt.Errorf("inputHash %q", d.InputHash)
	}
	return v, nil
}
