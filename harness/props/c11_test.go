package props

import (
	"bytes"
	"fmt"
	"os"
	"path/filepath"
	"testing"
	"time"

	"pgregory.net/rapid"

	"worldcoin/gnark-mbu/prover"
)

// C11 — a proving-system file reloads to an interchangeable system in either format.

type c11Case struct {
	Kind  string     `json:"kind"` // small | real
	Shape SmallShape `json:"shape"`
	Mode  string     `json:"mode,omitempty"` // real: insertion | deletion
	Depth int        `json:"depth,omitempty"`
	Batch int        `json:"batch,omitempty"`
	Ops   []string   `json:"ops"` // compressed | raw | file-compressed | file-raw | cli-convert
}

func genC11(t *rapid.T) c11Case {
	c := c11Case{Kind: "small", Shape: genSmallShape(t)}
	n := rapid.IntRange(1, 4).Draw(t, "nops")
	for i := 0; i < n; i++ {
		c.Ops = append(c.Ops, pick(t, "op", "compressed", "raw", "file-compressed", "file-raw"))
	}
	return c
}

func writeSystem(ps *prover.ProvingSystem, raw bool) (data []byte, n int64, err error) {
	defer func() {
		if r := recover(); r != nil {
			err = fmt.Errorf("panic: %v", r)
		}
	}()
	var b bytes.Buffer
	if raw {
		n, err = ps.WriteRawTo(&b)
	} else {
		n, err = ps.WriteTo(&b)
	}
	return b.Bytes(), n, err
}

// applyOp writes ps in one format and reads it back through one path.
func applyOp(ps *prover.ProvingSystem, op string) (*prover.ProvingSystem, string) {
	raw := op == "raw" || op == "file-raw"
	if op == "cli-convert" {
		dir, err := os.MkdirTemp(os.Getenv("VERIF_WORK"), "c11-")
		if err != nil {
			return nil, "harness:tempdir: " + err.Error()
		}
		defer os.RemoveAll(dir)
		data, _, err := writeSystem(ps, false)
		if err != nil {
			return nil, "WriteTo: " + err.Error()
		}
		in, out := filepath.Join(dir, "in.ps"), filepath.Join(dir, "out.ps")
		if err := os.WriteFile(in, data, 0o644); err != nil {
			return nil, "harness:write: " + err.Error()
		}
		r := runCLI(600*time.Second, nil, nil, "convert-to-raw", "--input", in, "--output", out)
		if r.ExitCode != 0 {
			return nil, fmt.Sprintf("convert-to-raw: exit %d: %s", r.ExitCode, tail(r.Stderr, 300))
		}
		back, err := prover.ReadSystemFromFile(out)
		if err != nil {
			return nil, "ReadSystemFromFile(converted): " + err.Error()
		}
		return back, ""
	}
	data, n, err := writeSystem(ps, raw)
	if err != nil {
		return nil, "write(" + op + "): " + err.Error()
	}
	if n != int64(len(data)) {
		return nil, fmt.Sprintf("write(%s) reported %d bytes, wrote %d", op, n, len(data))
	}
	if op == "file-compressed" || op == "file-raw" {
		dir, err := os.MkdirTemp(os.Getenv("VERIF_WORK"), "c11-")
		if err != nil {
			return nil, "harness:tempdir: " + err.Error()
		}
		defer os.RemoveAll(dir)
		path := filepath.Join(dir, "sys.ps")
		if err := os.WriteFile(path, data, 0o644); err != nil {
			return nil, "harness:write: " + err.Error()
		}
		back, err := prover.ReadSystemFromFile(path)
		if err != nil {
			return nil, "ReadSystemFromFile: " + err.Error()
		}
		return back, ""
	}
	back, rn, err, pan := safeRead(data)
	if pan != nil {
		return nil, fmt.Sprintf("UnsafeReadFrom panicked: %v", pan)
	}
	if err != nil {
		return nil, "UnsafeReadFrom: " + err.Error()
	}
	if rn != int64(len(data)) {
		return nil, fmt.Sprintf("UnsafeReadFrom reported %d bytes of %d", rn, len(data))
	}
	return back, ""
}

func runC11(c c11Case) Result {
	class := c.Kind
	tags := []string{}
	for _, op := range c.Ops {
		tags = append(tags, "op:"+op)
	}
	var orig *prover.ProvingSystem
	var err error
	if c.Kind == "small" {
		orig, err = newSmallSystem(c.Shape)
	} else {
		orig, err = getSystem(c.Mode, c.Depth, c.Batch)
		class += "/" + c.Mode
	}
	if err != nil {
		return bad(class, "harness:setup", "%v", err)
	}
	want, err := canonOf(orig)
	if err != nil {
		return bad(class, "harness:canon", "%v", err)
	}
	cur := orig
	for i, op := range c.Ops {
		next, problem := applyOp(cur, op)
		if problem != "" {
			if len(problem) > 8 && problem[:8] == "harness:" {
				return bad(class, "harness:io", "%s", problem)
			}
			return bad(class, "ProvingSystem:"+op+":reload-failed", "op %d (%s): %s", i, op, problem)
		}
		got, err := canonOf(next)
		if err != nil {
			return bad(class, "ProvingSystem:"+op+":unusable", "op %d (%s): reloaded system cannot be serialised: %v", i, op, err)
		}
		if d := want.diff(got); d != "" {
			return bad(class, "ProvingSystem:"+op+":differs", "op %d (%s) of %v: %s", i, op, c.Ops, d)
		}
		cur = next
	}
	// interchangeability: reloaded proves => original verifies, and vice versa
	if c.Kind == "small" {
		if err := smallProveVerify(c.Shape, cur, orig, secFor(c.Shape, 1)); err != nil {
			return bad(class, "ProvingSystem:reloaded-proves-original-verifies", "%v", err)
		}
		if err := smallProveVerify(c.Shape, orig, cur, secFor(c.Shape, 2)); err != nil {
			return bad(class, "ProvingSystem:original-proves-reloaded-verifies", "%v", err)
		}
	}
	conv := len(c.Ops) >= 1
	return ok(class, c.Shape.Depth != c.Shape.Batch && conv || c.Kind == "real").tag(tags...)
}

// real systems: generated valid batches proved by one system, verified by the other
type c11Real struct {
	Mode  string   `json:"mode"`
	Depth int      `json:"depth"`
	Batch int      `json:"batch"`
	Ops   []string `json:"ops"`
}

func TestC11_Real(t *testing.T) {
	col := newCol("C11", "TestC11_Real")
	defer col.Flush()
	type dim struct {
		mode         string
		depth, batch int
	}
	dims := []dim{{"deletion", 2, 3}}
	if Thorough() {
		dims = []dim{{"deletion", 2, 3}, {"insertion", 3, 2}, {"insertion", 4, 1}, {"deletion", 1, 4}}
	}
	d := dims[Shard()%len(dims)]
	if _, err := getSystem(d.mode, d.depth, d.batch); err != nil {
		t.Fatalf("harness: %v", err)
	}
	opsList := [][]string{{"file-raw"}, {"compressed", "raw"}}
	if Thorough() {
		opsList = append(opsList, []string{"cli-convert"}, []string{"file-compressed", "file-raw"})
	}
	rapid.Check(t, func(rt *rapid.T) {
		orig, err := getSystem(d.mode, d.depth, d.batch)
		if err != nil {
			rt.Fatalf("harness: %v", err)
		}
		ops := opsList[rapid.IntRange(0, len(opsList)-1).Draw(rt, "ops")]
		c := c11Case{Kind: "real", Mode: d.mode, Depth: d.depth, Batch: d.batch, Ops: ops, Shape: SmallShape{Depth: uint32(d.depth), Batch: uint32(d.batch)}}
		res := runC11(c)
		if res.Msg == "" {
			// cross prove/verify through the code under test's own entry points
			cur := orig
			for _, op := range ops {
				cur, _ = applyOp(cur, op)
			}
			for dir, pair := range [][2]*prover.ProvingSystem{{cur, orig}, {orig, cur}} {
				m := genValidParams(rt, d.mode, d.depth, d.batch)
				proof, err := proveParams(pair[0], m)
				if err != nil {
					res = bad(res.Class, "ProvingSystem:real:prove-after-reload", "direction %d: proving a valid batch failed: %v", dir, err)
					break
				}
				if err := verifyWith(pair[1], d.mode, m.InputHash, proof); err != nil {
					res = bad(res.Class, "ProvingSystem:real:cross-verify", "direction %d: proof from one system rejected by the other: %v", dir, err)
					break
				}
			}
		}
		if msg := handle(col, "C11", "TestC11_Real", c, res); msg != "" {
			fmt.Printf("VIOLATION property=C11 replay=%s\n", replayPath("C11", "TestC11_Real"))
			rt.Fatalf("%s", msg)
		}
	})
}

func init() {
	registerReplay("TestC11_Small", runC11)
	registerReplay("TestC11_Real", runC11)
	registerReplay("TestC11_CLIChainReal", runC11Chain)
}

func TestC11_Small(t *testing.T) {
	RunRapid(t, Check[c11Case]{Prop: "C11", Test: "TestC11_Small", Gen: genC11, Run: runC11})
}

// ---------------------------------------------------------------------------
// convert-to-raw as a chain of CLI runs over files (seeded change C11e): the
// output may be a fresh path, an existing file, or the input itself (same
// path, another spelling of it, a symlink or a hard link to it).

type c11Chain struct {
	Shape SmallShape `json:"shape"`
	Real  string     `json:"real,omitempty"` // "" = small system; otherwise the mode of a real 2x3 / 3x2 system
	Raw0  bool       `json:"raw0"`           // the first file is written in the raw format
	Ops   []string   `json:"ops"`            // new | over-existing | in-place | respelled | symlink | hardlink
}

func genC11Chain(t *rapid.T) c11Chain {
	c := c11Chain{Shape: genSmallShape(t), Raw0: rapid.Bool().Draw(t, "raw0")}
	n := rapid.IntRange(1, 4).Draw(t, "nops")
	for i := 0; i < n; i++ {
		c.Ops = append(c.Ops, pick(t, "op", "new", "over-existing", "in-place", "in-place", "respelled", "symlink", "hardlink"))
	}
	return c
}

func runC11Chain(c c11Chain) Result {
	class := "cli-chain/small"
	var orig *prover.ProvingSystem
	var err error
	if c.Real != "" {
		class = "cli-chain/real/" + c.Real
		orig, err = getSystem(c.Real, int(c.Shape.Depth), int(c.Shape.Batch))
	} else {
		orig, err = newSmallSystem(c.Shape)
	}
	if err != nil {
		return bad(class, "harness:setup", "%v", err)
	}
	want, err := canonOf(orig)
	if err != nil {
		return bad(class, "harness:canon", "%v", err)
	}
	dir, err := os.MkdirTemp(os.Getenv("VERIF_WORK"), "c11c-")
	if err != nil {
		return bad(class, "harness:tempdir", "%v", err)
	}
	defer os.RemoveAll(dir)
	data, _, err := writeSystem(orig, c.Raw0)
	if err != nil {
		return bad(class, "ProvingSystem:write", "%v", err)
	}
	cur := filepath.Join(dir, "f0.ps")
	if err := os.WriteFile(cur, data, 0o644); err != nil {
		return bad(class, "harness:io", "%v", err)
	}
	reload := func(path string) string {
		back, err := prover.ReadSystemFromFile(path)
		if err != nil {
			return "does not load: " + err.Error()
		}
		got, err := canonOf(back)
		if err != nil {
			return "reloaded system cannot be serialised: " + err.Error()
		}
		return want.diff(got)
	}
	tags := []string{}
	for i, op := range c.Ops {
		tags = append(tags, "chain-op:"+op)
		out := filepath.Join(dir, fmt.Sprintf("f%d.ps", i+1))
		alias := true
		switch op {
		case "new":
			alias = false
		case "over-existing":
			alias = false
			if err := os.WriteFile(out, bytes.Repeat([]byte{0xA5}, len(data)+4097), 0o644); err != nil {
				return bad(class, "harness:io", "%v", err)
			}
		case "in-place":
			out = cur
		case "respelled":
			out = filepath.Join(dir, ".", "sub", "..", filepath.Base(cur))
			os.Mkdir(filepath.Join(dir, "sub"), 0o755)
		case "symlink":
			if err := os.Symlink(cur, out); err != nil {
				return bad(class, "harness:io", "%v", err)
			}
		case "hardlink":
			if err := os.Link(cur, out); err != nil {
				return bad(class, "harness:io", "%v", err)
			}
		}
		r := runCLI(600*time.Second, nil, nil, "convert-to-raw", "--input", cur, "--output", out)
		if r.TimedOut {
			return bad(class, "harness:timeout", "convert-to-raw timed out")
		}
		if r.ExitCode != 0 {
			if !alias {
				return bad(class, "convert-to-raw:"+op+":failed", "step %d of %v: exit %d on a loadable input: %s", i, c.Ops, r.ExitCode, tail(r.Stderr, 300))
			}
			// refusing to convert a file onto itself is allowed — destroying it is not
			if d := reload(cur); d != "" {
				return bad(class, "convert-to-raw:"+op+":input-destroyed", "step %d of %v: the command failed (exit %d: %s) and the proving system file it was given %s", i, c.Ops, r.ExitCode, tail(r.Stderr, 200), d)
			}
			tags = append(tags, "chain:alias-refused")
			continue
		}
		if d := reload(out); d != "" {
			return bad(class, "convert-to-raw:"+op+":output-differs", "step %d of %v: exit 0 and the output file %s", i, c.Ops, d)
		}
		if !alias {
			if d := reload(cur); d != "" {
				return bad(class, "convert-to-raw:"+op+":input-changed", "step %d of %v: the input file %s after the conversion", i, c.Ops, d)
			}
		}
		// the output is in the raw format: it equals the raw serialisation of the original system
		rawWant, _, err := writeSystem(orig, true)
		if err == nil {
			if got, rerr := os.ReadFile(out); rerr == nil && !bytes.Equal(got, rawWant) {
				return bad(class, "convert-to-raw:"+op+":not-raw-encoding", "step %d of %v: the output (%d bytes) is not the raw serialisation of the system (%d bytes)", i, c.Ops, len(got), len(rawWant))
			}
		}
		cur = out
	}
	if c.Real == "" {
		back, err := prover.ReadSystemFromFile(cur)
		if err != nil {
			return bad(class, "convert-to-raw:final:reload-failed", "%v", err)
		}
		if err := smallProveVerify(c.Shape, back, orig, secFor(c.Shape, 1)); err != nil {
			return bad(class, "convert-to-raw:converted-proves-original-verifies", "%v", err)
		}
		if err := smallProveVerify(c.Shape, orig, back, secFor(c.Shape, 2)); err != nil {
			return bad(class, "convert-to-raw:original-proves-converted-verifies", "%v", err)
		}
	}
	return ok(class, true).tag(tags...)
}

func init() { registerReplay("TestC11_CLIChain", runC11Chain) }

func TestC11_CLIChain(t *testing.T) {
	RunRapid(t, Check[c11Chain]{Prop: "C11", Test: "TestC11_CLIChain", Gen: genC11Chain, Run: runC11Chain})
}

// TestC11_CLIChainReal: the same chains on a real proving system (files of tens of MiB, beyond every buffer size).
func TestC11_CLIChainReal(t *testing.T) {
	col := newCol("C11", "TestC11_CLIChainReal")
	defer col.Flush()
	chains := [][]string{{"in-place", "in-place"}, {"new", "symlink"}, {"hardlink", "over-existing"}, {"respelled", "new"}}
	modes := []struct {
		mode         string
		depth, batch int
	}{{"deletion", 2, 3}, {"insertion", 3, 2}}
	n := 1
	if Thorough() {
		n = len(chains) * 2
	}
	for k := 0; k < n; k++ {
		i := (Shard() + k) % len(chains)
		md := modes[(Shard()+k/len(chains))%len(modes)]
		c := c11Chain{Shape: SmallShape{Depth: uint32(md.depth), Batch: uint32(md.batch)}, Real: md.mode, Raw0: k%2 == 1, Ops: chains[i]}
		res := runC11Chain(c)
		if msg := handle(col, "C11", "TestC11_CLIChainReal", c, res); msg != "" {
			fmt.Printf("VIOLATION property=C11 replay=%s\n", replayPath("C11", "TestC11_CLIChainReal"))
			t.Fatalf("%s", msg)
		}
	}
}
