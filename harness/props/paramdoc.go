package props

import (
	"encoding/json"
	"fmt"
	"math/big"
	"strings"

	"pgregory.net/rapid"

	"worldcoin/gnark-mbu/prover"

	"verifharness/ref"
)

// Harness-side model of the two parameter documents, and an independent
// document writer (it does not use the code under test's encoder).

type mParams struct {
	Mode            string       `json:"mode"` // "insertion" | "deletion"
	InputHash       *big.Int     `json:"inputHash"`
	StartIndex      uint32       `json:"startIndex"`
	DeletionIndices []uint32     `json:"deletionIndices"`
	PreRoot         *big.Int     `json:"preRoot"`
	PostRoot        *big.Int     `json:"postRoot"`
	IdComms         []*big.Int   `json:"idComms"`
	MerkleProofs    [][]*big.Int `json:"merkleProofs"`
}

func (m *mParams) toInsertion() *prover.InsertionParameters {
	p := &prover.InsertionParameters{StartIndex: m.StartIndex}
	p.InputHash.Set(m.InputHash)
	p.PreRoot.Set(m.PreRoot)
	p.PostRoot.Set(m.PostRoot)
	p.IdComms = make([]big.Int, len(m.IdComms))
	for i := range m.IdComms {
		p.IdComms[i].Set(m.IdComms[i])
	}
	p.MerkleProofs = make([][]big.Int, len(m.MerkleProofs))
	for i := range m.MerkleProofs {
		p.MerkleProofs[i] = make([]big.Int, len(m.MerkleProofs[i]))
		for j := range m.MerkleProofs[i] {
			p.MerkleProofs[i][j].Set(m.MerkleProofs[i][j])
		}
	}
	return p
}

func (m *mParams) toDeletion() *prover.DeletionParameters {
	p := &prover.DeletionParameters{}
	p.InputHash.Set(m.InputHash)
	p.PreRoot.Set(m.PreRoot)
	p.PostRoot.Set(m.PostRoot)
	p.DeletionIndices = append([]uint32(nil), m.DeletionIndices...)
	p.IdComms = make([]big.Int, len(m.IdComms))
	for i := range m.IdComms {
		p.IdComms[i].Set(m.IdComms[i])
	}
	p.MerkleProofs = make([][]big.Int, len(m.MerkleProofs))
	for i := range m.MerkleProofs {
		p.MerkleProofs[i] = make([]big.Int, len(m.MerkleProofs[i]))
		for j := range m.MerkleProofs[i] {
			p.MerkleProofs[i][j].Set(m.MerkleProofs[i][j])
		}
	}
	return p
}

func eqBigs(a []big.Int, b []*big.Int) bool {
	if len(a) != len(b) {
		return false
	}
	for i := range a {
		if a[i].Cmp(b[i]) != 0 {
			return false
		}
	}
	return true
}

func eqU32(a, b []uint32) bool {
	if len(a) != len(b) {
		return false
	}
	for i := range a {
		if a[i] != b[i] {
			return false
		}
	}
	return true
}

// diffInsertion returns "" when the decoded parameters equal the model
// (nil and empty slices identified), else the first differing field.
func (m *mParams) diffInsertion(p *prover.InsertionParameters) string {
	switch {
	case p.InputHash.Cmp(m.InputHash) != 0:
		return "inputHash"
	case p.StartIndex != m.StartIndex:
		return "startIndex"
	case p.PreRoot.Cmp(m.PreRoot) != 0:
		return "preRoot"
	case p.PostRoot.Cmp(m.PostRoot) != 0:
		return "postRoot"
	case !eqBigs(p.IdComms, m.IdComms):
		return "identityCommitments"
	case len(p.MerkleProofs) != len(m.MerkleProofs):
		return "merkleProofs(len)"
	}
	for i := range p.MerkleProofs {
		if !eqBigs(p.MerkleProofs[i], m.MerkleProofs[i]) {
			return fmt.Sprintf("merkleProofs[%d]", i)
		}
	}
	return ""
}

func (m *mParams) diffDeletion(p *prover.DeletionParameters) string {
	switch {
	case p.InputHash.Cmp(m.InputHash) != 0:
		return "inputHash"
	case !eqU32(p.DeletionIndices, m.DeletionIndices):
		return "deletionIndices"
	case p.PreRoot.Cmp(m.PreRoot) != 0:
		return "preRoot"
	case p.PostRoot.Cmp(m.PostRoot) != 0:
		return "postRoot"
	case !eqBigs(p.IdComms, m.IdComms):
		return "identityCommitments"
	case len(p.MerkleProofs) != len(m.MerkleProofs):
		return "merkleProofs(len)"
	}
	for i := range p.MerkleProofs {
		if !eqBigs(p.MerkleProofs[i], m.MerkleProofs[i]) {
			return fmt.Sprintf("merkleProofs[%d]", i)
		}
	}
	return ""
}

// number styles for the independent document writer
const (
	styleHexLower  = iota // 0x1f
	styleHexUpper         // 0x1F
	styleHexPadded        // 0x001f (leading zero digits)
	styleHex64            // zero-padded to 64 digits
	styleDecimal          // canonical decimal (accepted by the decoder's base-0 parsing; checked as "if accepted, equal")
	numStyles
)

func fmtNum(v *big.Int, style int) string {
	switch style {
	case styleHexUpper:
		return "0x" + strings.ToUpper(v.Text(16))
	case styleHexPadded:
		return "0x00" + v.Text(16)
	case styleHex64:
		return fmt.Sprintf("0x%064s", v.Text(16))
	case styleDecimal:
		return v.Text(10)
	}
	return "0x" + v.Text(16)
}

// writeDoc assembles the JSON document for m using the given number style,
// independently of the code under test.
func (m *mParams) writeDoc(style int) string {
	q := func(v *big.Int) string { return `"` + fmtNum(v, style) + `"` }
	var sb strings.Builder
	sb.WriteString(`{"inputHash":` + q(m.InputHash))
	if m.Mode == "insertion" {
		sb.WriteString(fmt.Sprintf(`,"startIndex":%d`, m.StartIndex))
	} else {
		sb.WriteString(`,"deletionIndices":[`)
		for i, v := range m.DeletionIndices {
			if i > 0 {
				sb.WriteString(",")
			}
			sb.WriteString(fmt.Sprint(v))
		}
		sb.WriteString(`]`)
	}
	sb.WriteString(`,"preRoot":` + q(m.PreRoot) + `,"postRoot":` + q(m.PostRoot))
	sb.WriteString(`,"identityCommitments":[`)
	for i, v := range m.IdComms {
		if i > 0 {
			sb.WriteString(",")
		}
		sb.WriteString(q(v))
	}
	sb.WriteString(`],"merkleProofs":[`)
	for i, row := range m.MerkleProofs {
		if i > 0 {
			sb.WriteString(",")
		}
		sb.WriteString("[")
		for j, v := range row {
			if j > 0 {
				sb.WriteString(",")
			}
			sb.WriteString(q(v))
		}
		sb.WriteString("]")
	}
	sb.WriteString(`]}`)
	return sb.String()
}

// docTree is a mutable generic form of a parameter document, for mutations.
func (m *mParams) docTree(style int) map[string]any {
	var d map[string]any
	dec := json.NewDecoder(strings.NewReader(m.writeDoc(style)))
	dec.UseNumber()
	if err := dec.Decode(&d); err != nil {
		panic(err)
	}
	return d
}

// malformedNumbers are strings that denote no integer in any base or
// notation: decoding a document carrying one in a numeric position must fail.
var malformedNumbers = []string{
	"", "0x", "zz", " 1", "1 ", "1.5", "1e3", "0xg", "0x 1", "one", "0x1.8", "12a", "\t7", "0x1g", "NaN", "1,2", "#1", "0x--1", "٣",
	// a sign AFTER the prefix (an explicit-base parser takes it), a lone sign, two prefixes, a prefix without digits
	"0x-1", "0x+1", "0X-ff", "0x+0", "0x-", "+", "-", "0x0x1", "0b", "0o", "0x+ff", "1-", "--1", "+-1", "0x1-",
}

// genBigByLen draws a non-negative integer by byte length first (0..maxLen),
// so that leading-zero magnitudes, values >= r and 2^256-1 all occur.
func genBigByLen(t *rapid.T, maxLen int, label string) *big.Int {
	switch rapid.IntRange(0, 7).Draw(t, label+"_k") {
	case 0:
		return ref.Clone(pick(t, label+"_edge",
			big.NewInt(0), big.NewInt(1), new(big.Int).Sub(ref.R, big.NewInt(1)), ref.R, new(big.Int).Add(ref.R, big.NewInt(1)),
			new(big.Int).Sub(ref.Pow2(256), big.NewInt(1)), ref.Pow2(255), ref.Pow2(256), ref.Pow2(248)))
	default:
		n := rapid.IntRange(0, maxLen).Draw(t, label+"_len")
		return new(big.Int).SetBytes(genBytes(t, n, label+"_b"))
	}
}

func genIndex32(t *rapid.T, label string) uint32 {
	switch rapid.IntRange(0, 3).Draw(t, label+"_k") {
	case 0:
		return pick(t, label+"_edge", uint32(0), 1, 255, 256, 1<<16, 1<<24, 1<<31, 1<<32-1)
	default:
		return rapid.Uint32().Draw(t, label)
	}
}

// genArbitraryParams draws a parameter set with arbitrary (not necessarily
// consistent) values and dimensions: the JSON codec is a pure function of them.
func genArbitraryParams(t *rapid.T, mode string) *mParams {
	m := &mParams{Mode: mode}
	m.InputHash = genBigByLen(t, 40, "hash")
	m.PreRoot = genBigByLen(t, 40, "pre")
	m.PostRoot = genBigByLen(t, 40, "post")
	batch := rapid.IntRange(0, 6).Draw(t, "batch")
	depth := rapid.IntRange(0, 6).Draw(t, "depth")
	if rapid.IntRange(0, 399).Draw(t, "long") == 0 {
		batch, depth = pick(t, "long_batch", 100, 300), pick(t, "long_depth", 1, 8)
	}
	ragged := rapid.IntRange(0, 4).Draw(t, "ragged") == 0
	if mode == "insertion" {
		m.StartIndex = genIndex32(t, "start")
	} else {
		n := batch
		if ragged {
			n = rapid.IntRange(0, 6).Draw(t, "nidx")
		}
		m.DeletionIndices = make([]uint32, n)
		for i := range m.DeletionIndices {
			m.DeletionIndices[i] = genIndex32(t, "idx")
		}
	}
	m.IdComms = make([]*big.Int, batch)
	for i := range m.IdComms {
		m.IdComms[i] = genBigByLen(t, 40, "id")
	}
	np := batch
	if ragged {
		np = rapid.IntRange(0, 6).Draw(t, "nproofs")
	}
	m.MerkleProofs = make([][]*big.Int, np)
	for i := range m.MerkleProofs {
		d := depth
		if ragged {
			d = rapid.IntRange(0, 6).Draw(t, "rowlen")
		}
		m.MerkleProofs[i] = make([]*big.Int, d)
		for j := range m.MerkleProofs[i] {
			m.MerkleProofs[i][j] = genBigByLen(t, 40, "sib")
		}
	}
	return m
}
