package props

import (
	"fmt"
	"sync"

	"worldcoin/gnark-mbu/prover"
)

// E3: Groth16 systems of the code under test, set up once per process.

type sysKey struct {
	Mode         string
	Depth, Batch int
}

var (
	sysMu    sync.Mutex
	sysCache = map[sysKey]*prover.ProvingSystem{}
)

func getSystem(mode string, depth, batch int) (*prover.ProvingSystem, error) {
	sysMu.Lock()
	defer sysMu.Unlock()
	k := sysKey{mode, depth, batch}
	if ps, okk := sysCache[k]; okk {
		return ps, nil
	}
	var ps *prover.ProvingSystem
	var err error
	switch mode {
	case "insertion":
		ps, err = prover.SetupInsertion(uint32(depth), uint32(batch))
	case "deletion":
		ps, err = prover.SetupDeletion(uint32(depth), uint32(batch))
	default:
		err = fmt.Errorf("unknown mode %q", mode)
	}
	if err != nil {
		return nil, err
	}
	sysCache[k] = ps
	return ps, nil
}

// proveParams calls the code under test's prover for the model parameters.
func proveParams(ps *prover.ProvingSystem, m *mParams) (p *prover.Proof, err error) {
	defer func() {
		if r := recover(); r != nil {
			err = fmt.Errorf("panic: %v", r)
		}
	}()
	if m.Mode == "insertion" {
		return ps.ProveInsertion(m.toInsertion())
	}
	return ps.ProveDeletion(m.toDeletion())
}
