//go:build g_keccak

package props

import (
	"github.com/consensys/gnark/frontend"

	"worldcoin/gnark-mbu/prover/keccak"
)

// KeccakCircuit: Keccak-256 (Domain 1) or SHA3-256 (Domain 6) of In must equal Out.
type KeccakCircuit struct {
	In     []frontend.Variable
	Out    [256]frontend.Variable
	Domain int
}

func (c *KeccakCircuit) Define(api frontend.API) error {
	var h []frontend.Variable
	if c.Domain == 6 {
		h = keccak.NewSHA3_256(api, len(c.In), c.In...)
	} else {
		h = keccak.NewKeccak256(api, len(c.In), c.In...)
	}
	if len(h) != 256 {
		api.AssertIsEqual(0, 1)
		return nil
	}
	for i := 0; i < 256; i++ {
		api.AssertIsEqual(h[i], c.Out[i])
	}
	return nil
}
