package props

import (
	"bytes"
	"fmt"
	"math/big"

	"github.com/consensys/gnark-crypto/ecc"
	"github.com/consensys/gnark/backend/groth16"
	"github.com/consensys/gnark/frontend"
	"github.com/consensys/gnark/frontend/cs/r1cs"
	"pgregory.net/rapid"

	"worldcoin/gnark-mbu/prover"

	"verifharness/ref"
)

// Small proving systems: a ProvingSystem value of the code under test whose
// constraint system is a tiny generated circuit (Groth16 setup in
// milliseconds, files of a few KB), so that many independent systems and
// every byte offset of their files can be explored.

type SmallShape struct {
	NMul   int    `json:"nMul"`   // multiplication constraints
	NHints int    `json:"nHints"` // 8-bit decompositions (hint wires)
	NPub   int    `json:"nPub"`   // public inputs (1..3)
	NSec   int    `json:"nSec"`   // secret inputs
	Depth  uint32 `json:"treeDepth"`
	Batch  uint32 `json:"batchSize"`
}

type SmallCircuit struct {
	Pub []frontend.Variable `gnark:",public"`
	Sec []frontend.Variable

	shape SmallShape
}

func (c *SmallCircuit) Define(api frontend.API) error {
	s := c.shape
	acc := c.Sec[0]
	for i := 1; i < len(c.Sec); i++ {
		acc = api.Add(acc, c.Sec[i]) // every secret input is constrained
	}
	for i := 0; i < s.NMul; i++ {
		acc = api.Mul(acc, c.Sec[(i+1)%len(c.Sec)])
		acc = api.Add(acc, i+1)
	}
	for h := 0; h < s.NHints; h++ {
		bits := api.ToBinary(c.Sec[h%len(c.Sec)], 8)
		acc = api.Add(acc, api.Mul(bits[0], h+2), bits[7])
	}
	api.AssertIsEqual(acc, c.Pub[0])
	for j := 1; j < s.NPub; j++ {
		api.AssertIsEqual(api.Mul(c.Sec[0], c.Sec[j%len(c.Sec)]), c.Pub[j])
	}
	return nil
}

// smallAssignment mirrors Define over big.Int for secret values < 256.
func smallAssignment(s SmallShape, sec []int64) *SmallCircuit {
	r := ref.R
	acc := big.NewInt(sec[0])
	for i := 1; i < len(sec); i++ {
		acc.Add(acc, big.NewInt(sec[i]))
	}
	for i := 0; i < s.NMul; i++ {
		acc.Mul(acc, big.NewInt(sec[(i+1)%len(sec)]))
		acc.Add(acc, big.NewInt(int64(i+1)))
		acc.Mod(acc, r)
	}
	for h := 0; h < s.NHints; h++ {
		v := sec[h%len(sec)]
		acc.Add(acc, big.NewInt((v&1)*int64(h+2)+(v>>7)&1))
		acc.Mod(acc, r)
	}
	a := &SmallCircuit{shape: s}
	a.Pub = append(a.Pub, new(big.Int).Set(acc))
	for j := 1; j < s.NPub; j++ {
		a.Pub = append(a.Pub, big.NewInt(sec[0]*sec[j%len(sec)]))
	}
	for _, v := range sec {
		a.Sec = append(a.Sec, v)
	}
	return a
}

func genSmallShape(t *rapid.T) SmallShape {
	s := SmallShape{
		NMul:   rapid.IntRange(1, 40).Draw(t, "nMul"),
		NHints: rapid.IntRange(0, 3).Draw(t, "nHints"),
		NPub:   rapid.IntRange(1, 3).Draw(t, "nPub"),
		NSec:   rapid.IntRange(1, 4).Draw(t, "nSec"),
	}
	// Header values stay inside the dimensions real systems can have (depth 1..32, batch a positive count that
	// may exceed the number of leaves: deletion batches are padded), so that a reader hardened against absurd
	// headers is not flagged; they differ from each other and have distinct bytes so swaps and byte-order slips show.
	s.Depth = uint32(rapid.IntRange(1, 32).Draw(t, "treeDepth"))
	s.Batch = pick(t, "batchSize", uint32(1), 2, 3, 4, 5, 7, 8, 16, 100, 258, 513, 1000, 4096)
	if s.Batch == s.Depth {
		s.Batch++
	}
	return s
}

// newSmallSystem compiles the shape and runs a fresh Groth16 setup.
func newSmallSystem(s SmallShape) (*prover.ProvingSystem, error) {
	c := &SmallCircuit{Pub: vars(s.NPub), Sec: vars(s.NSec), shape: s}
	ccs, err := frontend.Compile(ecc.BN254.ScalarField(), r1cs.NewBuilder, c)
	if err != nil {
		return nil, err
	}
	pk, vk, err := groth16.Setup(ccs)
	if err != nil {
		return nil, err
	}
	return &prover.ProvingSystem{TreeDepth: s.Depth, BatchSize: s.Batch, ProvingKey: pk, VerifyingKey: vk, ConstraintSystem: ccs}, nil
}

// canon is the canonical byte form of a system's parts (gnark's serialisers
// as trusted canonical forms): raw pk, raw vk, constraint system.
type canon struct {
	PK, VK, CS []byte
	Depth      uint32
	Batch      uint32
}

func canonOf(ps *prover.ProvingSystem) (c canon, err error) {
	defer func() {
		if r := recover(); r != nil {
			err = fmt.Errorf("panic serialising a system: %v", r)
		}
	}()
	var b bytes.Buffer
	if _, err = ps.ProvingKey.WriteRawTo(&b); err != nil {
		return
	}
	c.PK = append([]byte(nil), b.Bytes()...)
	b.Reset()
	if _, err = ps.VerifyingKey.WriteRawTo(&b); err != nil {
		return
	}
	c.VK = append([]byte(nil), b.Bytes()...)
	b.Reset()
	if _, err = ps.ConstraintSystem.WriteTo(&b); err != nil {
		return
	}
	c.CS = append([]byte(nil), b.Bytes()...)
	c.Depth, c.Batch = ps.TreeDepth, ps.BatchSize
	return
}

func (c canon) diff(o canon) string {
	switch {
	case c.Depth != o.Depth:
		return fmt.Sprintf("tree depth %#x != %#x", o.Depth, c.Depth)
	case c.Batch != o.Batch:
		return fmt.Sprintf("batch size %#x != %#x", o.Batch, c.Batch)
	case !bytes.Equal(c.PK, o.PK):
		return "proving key differs"
	case !bytes.Equal(c.VK, o.VK):
		return "verifying key differs"
	case !bytes.Equal(c.CS, o.CS):
		return "constraint system differs"
	}
	return ""
}

// smallProveVerify proves with one system and verifies with the other.
func smallProveVerify(s SmallShape, proverSys, verifierSys *prover.ProvingSystem, sec []int64) (err error) {
	defer func() {
		if r := recover(); r != nil {
			err = fmt.Errorf("panic: %v", r)
		}
	}()
	a := smallAssignment(s, sec)
	w, err := frontend.NewWitness(a, ecc.BN254.ScalarField())
	if err != nil {
		return err
	}
	proof, err := groth16.Prove(proverSys.ConstraintSystem, proverSys.ProvingKey, w)
	if err != nil {
		return fmt.Errorf("prove: %w", err)
	}
	pw, err := w.Public()
	if err != nil {
		return err
	}
	if err := groth16.Verify(proof, verifierSys.VerifyingKey, pw); err != nil {
		return fmt.Errorf("verify: %w", err)
	}
	return nil
}

func secFor(s SmallShape, seed int) []int64 {
	sec := make([]int64, s.NSec)
	for i := range sec {
		sec[i] = int64((seed*31+i*17)%255 + 1)
	}
	return sec
}

// safeRead wraps UnsafeReadFrom with panic recovery.
func safeRead(data []byte) (ps *prover.ProvingSystem, n int64, err error, panicked any) {
	defer func() {
		if r := recover(); r != nil {
			panicked = r
		}
	}()
	ps = new(prover.ProvingSystem)
	n, err = ps.UnsafeReadFrom(bytes.NewReader(data))
	return
}
