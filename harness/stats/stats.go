// Package stats collects what a check run actually covered and writes it as a
// partial evidence record that the driver (/verif/check) merges across shards.
package stats

import (
	"crypto/sha1"
	"encoding/hex"
	"encoding/json"
	"fmt"
	"os"
	"sort"
	"sync"
)

const samplesPerClass = 2

// Partial is the on-disk form of one process's coverage record.
type Partial struct {
	Property               string                       `json:"property"`
	Test                   string                       `json:"test"`
	Evaluations            int                          `json:"evaluations"`
	Digests                []string                     `json:"digests"` // 8-byte digests of distinct non-trivial cases
	Classes                map[string]int               `json:"classes"`
	NonTrivial             map[string]int               `json:"nontrivial_by_class"`
	Samples                map[string][]json.RawMessage `json:"samples"`
	Oracles                map[string]int               `json:"oracles"`
	Excluded               map[string]int               `json:"excluded"`
	Extra                  map[string]any               `json:"extra"`
	Required               []string                     `json:"required_classes"`
	Exhaustive             bool                         `json:"exhaustive"`
	DistinctByConstruction int                          `json:"distinct_by_construction"` // enumerated (hence pairwise distinct) non-trivial cases not digested
	Violations             []Violation                  `json:"violations"`
	Known                  []string                     `json:"known"`
}

type Violation struct {
	Sig    string `json:"sig"`
	Msg    string `json:"msg"`
	Replay string `json:"replay"`
}

type Collector struct {
	mu      sync.Mutex
	p       Partial
	digests map[string]struct{}
}

func New(property, test string) *Collector {
	return &Collector{
		p: Partial{
			Property: property, Test: test,
			Classes: map[string]int{}, NonTrivial: map[string]int{},
			Samples: map[string][]json.RawMessage{}, Oracles: map[string]int{},
			Excluded: map[string]int{}, Extra: map[string]any{},
		},
		digests: map[string]struct{}{},
	}
}

// Case records one evaluated case. v is serialised (canonical JSON of a struct
// is deterministic: struct field order, sorted map keys) for the digest and
// for samples.
func (c *Collector) Case(class string, nontrivial bool, v any) {
	raw, err := json.Marshal(v)
	if err != nil {
		raw = []byte(fmt.Sprintf("%q", fmt.Sprint(v)))
	}
	c.CaseRaw(class, nontrivial, raw)
}

func (c *Collector) CaseRaw(class string, nontrivial bool, raw []byte) {
	c.mu.Lock()
	defer c.mu.Unlock()
	c.p.Evaluations++
	c.p.Classes[class]++
	if nontrivial {
		c.p.NonTrivial[class]++
		h := sha1.Sum(append([]byte(class+"\x00"), raw...))
		c.digests[hex.EncodeToString(h[:8])] = struct{}{}
	}
	if len(c.p.Samples[class]) < samplesPerClass {
		s := raw
		if len(s) > 3000 {
			// keep samples readable: very large cases are recorded by digest and prefix
			q, _ := json.Marshal(map[string]any{"truncated_prefix": string(s[:1500]), "bytes": len(s)})
			s = q
		}
		c.p.Samples[class] = append(c.p.Samples[class], json.RawMessage(append([]byte(nil), s...)))
	}
}

// CaseCounted records a case without serialising it (hot exhaustive loops):
// digest is supplied by the caller.
func (c *Collector) CaseCounted(class string, nontrivial bool, digest string, sample func() any) {
	c.mu.Lock()
	defer c.mu.Unlock()
	c.p.Evaluations++
	c.p.Classes[class]++
	if nontrivial {
		c.p.NonTrivial[class]++
		h := sha1.Sum([]byte(class + "\x00" + digest))
		c.digests[hex.EncodeToString(h[:8])] = struct{}{}
	}
	if len(c.p.Samples[class]) < samplesPerClass && sample != nil {
		raw, _ := json.Marshal(sample())
		c.p.Samples[class] = append(c.p.Samples[class], raw)
	}
}

// CountEnumerated records a case of an explicit enumeration without
// serialising it: enumerated cases are pairwise distinct by construction.
func (c *Collector) CountEnumerated(class string, nontrivial bool, sample func() any) {
	c.mu.Lock()
	defer c.mu.Unlock()
	c.p.Evaluations++
	c.p.Classes[class]++
	if nontrivial {
		c.p.NonTrivial[class]++
		c.p.DistinctByConstruction++
	}
	if len(c.p.Samples[class]) < samplesPerClass && sample != nil {
		raw, _ := json.Marshal(sample())
		c.p.Samples[class] = append(c.p.Samples[class], raw)
	}
}

func (c *Collector) Oracle(name string) {
	c.mu.Lock()
	c.p.Oracles[name]++
	c.mu.Unlock()
}

func (c *Collector) OracleN(name string, n int) {
	c.mu.Lock()
	c.p.Oracles[name] += n
	c.mu.Unlock()
}

func (c *Collector) Exclude(sig string) {
	c.mu.Lock()
	c.p.Excluded[sig]++
	c.mu.Unlock()
}

func (c *Collector) Extra(key string, v any) {
	c.mu.Lock()
	c.p.Extra[key] = v
	c.mu.Unlock()
}

func (c *Collector) AddExtra(key string, n int) {
	c.mu.Lock()
	cur, _ := c.p.Extra[key].(int)
	c.p.Extra[key] = cur + n
	c.mu.Unlock()
}

// Require names classes that must be non-empty for the run not to be vacuous.
func (c *Collector) Require(classes ...string) {
	c.mu.Lock()
	c.p.Required = append(c.p.Required, classes...)
	c.mu.Unlock()
}

func (c *Collector) SetExhaustive(b bool) {
	c.mu.Lock()
	c.p.Exhaustive = b
	c.mu.Unlock()
}

func (c *Collector) Violation(sig, msg, replay string) {
	c.mu.Lock()
	c.p.Violations = append(c.p.Violations, Violation{sig, msg, replay})
	c.mu.Unlock()
}

func (c *Collector) KnownFinding(line string) {
	c.mu.Lock()
	for _, k := range c.p.Known {
		if k == line {
			c.mu.Unlock()
			return
		}
	}
	c.p.Known = append(c.p.Known, line)
	c.mu.Unlock()
}

func (c *Collector) Evaluations() int {
	c.mu.Lock()
	defer c.mu.Unlock()
	return c.p.Evaluations
}

func (c *Collector) ClassCount(class string) int {
	c.mu.Lock()
	defer c.mu.Unlock()
	return c.p.Classes[class]
}

// Flush writes the partial record to $VERIF_STATS_OUT (if set).
func (c *Collector) Flush() {
	c.mu.Lock()
	defer c.mu.Unlock()
	out := os.Getenv("VERIF_STATS_OUT")
	if out == "" {
		return
	}
	c.p.Digests = c.p.Digests[:0]
	for d := range c.digests {
		c.p.Digests = append(c.p.Digests, d)
	}
	sort.Strings(c.p.Digests)
	raw, err := json.Marshal(&c.p)
	if err != nil {
		fmt.Fprintln(os.Stderr, "stats: marshal:", err)
		return
	}
	tmp := out + ".tmp"
	if err := os.WriteFile(tmp, raw, 0o644); err != nil {
		fmt.Fprintln(os.Stderr, "stats: write:", err)
		return
	}
	os.Rename(tmp, out)
}
