package ref

import "math/big"

// GenericPoseidon is a direct implementation of the Poseidon permutation
// (x^5 S-box, RF full rounds, RP partial rounds, capacity element first,
// output = first state element) over an arbitrary prime field, with the
// round-constant and MDS tables supplied by the caller. It is used for tiny
// prime fields, where no independent library exists; on BN254 it is validated
// against iden3's implementation (which has its own tables) at start-up.
type GenericPoseidon struct {
	P      *big.Int
	RF, RP int
	C      [][]*big.Int // (RF+RP) rows of t constants
	M      [][]*big.Int // t x t
}

func (g *GenericPoseidon) Hash(inputs ...*big.Int) *big.Int {
	t := len(inputs) + 1
	st := make([]*big.Int, t)
	st[0] = big.NewInt(0)
	for i, v := range inputs {
		st[i+1] = new(big.Int).Mod(v, g.P)
	}
	sbox := func(x *big.Int) *big.Int {
		x2 := new(big.Int).Mul(x, x)
		x2.Mod(x2, g.P)
		x4 := new(big.Int).Mul(x2, x2)
		x4.Mod(x4, g.P)
		x5 := x4.Mul(x4, x)
		return x5.Mod(x5, g.P)
	}
	mix := func(s []*big.Int) []*big.Int {
		o := make([]*big.Int, t)
		for i := 0; i < t; i++ {
			acc := new(big.Int)
			for j := 0; j < t; j++ {
				acc.Add(acc, new(big.Int).Mul(s[j], g.M[i][j]))
			}
			o[i] = acc.Mod(acc, g.P)
		}
		return o
	}
	round := 0
	step := func(full bool) {
		for i := 0; i < t; i++ {
			st[i] = new(big.Int).Add(st[i], g.C[round][i])
			st[i].Mod(st[i], g.P)
		}
		if full {
			for i := 0; i < t; i++ {
				st[i] = sbox(st[i])
			}
		} else {
			st[0] = sbox(st[0])
		}
		st = mix(st)
		round++
	}
	for i := 0; i < g.RF/2; i++ {
		step(true)
	}
	for i := 0; i < g.RP; i++ {
		step(false)
	}
	for i := 0; i < g.RF/2; i++ {
		step(true)
	}
	return st[0]
}
