package ref

import (
	"math/big"
	"sort"
)

// Tree is a sparse Merkle tree over an arbitrary two-to-one hash. It is
// written independently of poseidon_tree (which is itself under test).
type Tree struct {
	Depth   int
	Leaves  map[uint64]*big.Int
	H       func(a, b *big.Int) *big.Int
	empties []*big.Int // empties[k] = root of an all-zero subtree of height k
}

func NewTree(depth int) *Tree { return NewTreeH(depth, H2) }

func NewTreeH(depth int, h func(a, b *big.Int) *big.Int) *Tree {
	t := &Tree{Depth: depth, Leaves: map[uint64]*big.Int{}, H: h}
	t.empties = make([]*big.Int, depth+1)
	t.empties[0] = big.NewInt(0)
	for k := 1; k <= depth; k++ {
		t.empties[k] = h(t.empties[k-1], t.empties[k-1])
	}
	return t
}

func (t *Tree) Clone() *Tree {
	c := &Tree{Depth: t.Depth, Leaves: make(map[uint64]*big.Int, len(t.Leaves)), H: t.H, empties: t.empties}
	for k, v := range t.Leaves {
		c.Leaves[k] = new(big.Int).Set(v)
	}
	return c
}

func (t *Tree) Get(i uint64) *big.Int {
	if v, ok := t.Leaves[i]; ok {
		return new(big.Int).Set(v)
	}
	return big.NewInt(0)
}

func (t *Tree) Set(i uint64, v *big.Int) {
	if v.Sign() == 0 {
		delete(t.Leaves, i)
		return
	}
	t.Leaves[i] = new(big.Int).Set(v)
}

func (t *Tree) Empty(level int) *big.Int { return new(big.Int).Set(t.empties[level]) }

// levels returns, for each height 0..Depth, the non-default nodes at that height.
func (t *Tree) levels() []map[uint64]*big.Int {
	lv := make([]map[uint64]*big.Int, t.Depth+1)
	lv[0] = map[uint64]*big.Int{}
	for k, v := range t.Leaves {
		lv[0][k] = v
	}
	for h := 0; h < t.Depth; h++ {
		next := map[uint64]*big.Int{}
		parents := map[uint64]struct{}{}
		for k := range lv[h] {
			parents[k>>1] = struct{}{}
		}
		for p := range parents {
			l, ok := lv[h][2*p]
			if !ok {
				l = t.empties[h]
			}
			r, ok := lv[h][2*p+1]
			if !ok {
				r = t.empties[h]
			}
			next[p] = t.H(l, r)
		}
		lv[h+1] = next
	}
	return lv
}

func (t *Tree) Root() *big.Int {
	lv := t.levels()
	if v, ok := lv[t.Depth][0]; ok {
		return new(big.Int).Set(v)
	}
	return new(big.Int).Set(t.empties[t.Depth])
}

// Path returns the siblings of leaf i from the leaf level upwards
// (element 0 is the sibling leaf).
func (t *Tree) Path(i uint64) []*big.Int {
	lv := t.levels()
	out := make([]*big.Int, t.Depth)
	for h := 0; h < t.Depth; h++ {
		sib := (i >> uint(h)) ^ 1
		if v, ok := lv[h][sib]; ok {
			out[h] = new(big.Int).Set(v)
		} else {
			out[h] = new(big.Int).Set(t.empties[h])
		}
	}
	return out
}

// DenseRoot recomputes the root from all 2^Depth leaves, with no sparsity
// shortcuts at all (only for small depths).
func (t *Tree) DenseRoot() *big.Int {
	n := uint64(1) << uint(t.Depth)
	cur := make([]*big.Int, n)
	for i := uint64(0); i < n; i++ {
		cur[i] = t.Get(i)
	}
	for len(cur) > 1 {
		nx := make([]*big.Int, len(cur)/2)
		for i := range nx {
			nx[i] = t.H(cur[2*i], cur[2*i+1])
		}
		cur = nx
	}
	return cur[0]
}

func (t *Tree) Occupied() []uint64 {
	ks := make([]uint64, 0, len(t.Leaves))
	for k := range t.Leaves {
		ks = append(ks, k)
	}
	sort.Slice(ks, func(a, b int) bool { return ks[a] < ks[b] })
	return ks
}

// Fold computes the root implied by (leaf, index bits, path): bit j of idx
// set means the running hash is the right child at height j.
func Fold(h func(a, b *big.Int) *big.Int, leaf *big.Int, idx *big.Int, path []*big.Int) *big.Int {
	cur := leaf
	for j := 0; j < len(path); j++ {
		if idx.Bit(j) == 0 {
			cur = h(cur, path[j])
		} else {
			cur = h(path[j], cur)
		}
	}
	return cur
}

// RootAndPath computes the root and the sibling path of leaf i in one pass.
func (t *Tree) RootAndPath(i uint64) (*big.Int, []*big.Int) {
	lv := t.levels()
	out := make([]*big.Int, t.Depth)
	for h := 0; h < t.Depth; h++ {
		sib := (i >> uint(h)) ^ 1
		if v, ok := lv[h][sib]; ok {
			out[h] = new(big.Int).Set(v)
		} else {
			out[h] = new(big.Int).Set(t.empties[h])
		}
	}
	if v, ok := lv[t.Depth][0]; ok {
		return new(big.Int).Set(v), out
	}
	return new(big.Int).Set(t.empties[t.Depth]), out
}
