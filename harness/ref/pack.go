package ref

import (
	"encoding/binary"
	"math/big"

	"golang.org/x/crypto/sha3"
)

// Keccak256 is the Ethereum (pre-FIPS padding) Keccak-256.
func Keccak256(msg []byte) []byte {
	h := sha3.NewLegacyKeccak256()
	h.Write(msg)
	return h.Sum(nil)
}

// SHA3256 is FIPS-202 SHA3-256.
func SHA3256(msg []byte) []byte {
	h := sha3.New256()
	h.Write(msg)
	return h.Sum(nil)
}

func be32(v *big.Int) []byte {
	var b [32]byte
	v.FillBytes(b[:]) // panics if v does not fit: callers pass values < 2^256
	return b[:]
}

func be4(v uint32) []byte {
	var b [4]byte
	binary.BigEndian.PutUint32(b[:], v)
	return b[:]
}

// PackInsertion is the byte string the on-chain verifier hashes for an
// insertion: uint32 startIndex || uint256 preRoot || uint256 postRoot || uint256 ids...
func PackInsertion(start uint32, pre, post *big.Int, ids []*big.Int) []byte {
	out := append([]byte{}, be4(start)...)
	out = append(out, be32(pre)...)
	out = append(out, be32(post)...)
	for _, v := range ids {
		out = append(out, be32(v)...)
	}
	return out
}

// PackDeletion: uint32 indices... || uint256 preRoot || uint256 postRoot.
func PackDeletion(idx []uint32, pre, post *big.Int) []byte {
	var out []byte
	for _, v := range idx {
		out = append(out, be4(v)...)
	}
	out = append(out, be32(pre)...)
	out = append(out, be32(post)...)
	return out
}

// HashInsertion returns the full 256-bit Keccak of the packing (what the
// contract computes before reducing) as an integer.
func HashInsertion(start uint32, pre, post *big.Int, ids []*big.Int) *big.Int {
	return new(big.Int).SetBytes(Keccak256(PackInsertion(start, pre, post, ids)))
}

func HashDeletion(idx []uint32, pre, post *big.Int) *big.Int {
	return new(big.Int).SetBytes(Keccak256(PackDeletion(idx, pre, post)))
}

// BytesToBitsLSB expands bytes to bits, least-significant bit first within each byte.
func BytesToBitsLSB(b []byte) []int {
	out := make([]int, 0, 8*len(b))
	for _, x := range b {
		for j := 0; j < 8; j++ {
			out = append(out, int(x>>uint(j))&1)
		}
	}
	return out
}
