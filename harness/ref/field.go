// Package ref holds the reference models the checks use as oracles. Nothing in
// this package imports the code under test.
package ref

import (
	"fmt"
	"math/big"

	iden3 "github.com/iden3/go-iden3-crypto/poseidon"
)

// R is the BN254 scalar-field order, written out here rather than taken from
// the code under test.
var R, _ = new(big.Int).SetString("21888242871839275222246405745257275088548364400416034343698204186575808495617", 10)

// Q is the BN254 base-field order.
var Q, _ = new(big.Int).SetString("21888242871839275222246405745257275088696311157297823662689037894645226208583", 10)

func B(x int64) *big.Int { return big.NewInt(x) }

func Hex(s string) *big.Int {
	v, ok := new(big.Int).SetString(s, 0)
	if !ok {
		panic("bad literal " + s)
	}
	return v
}

// H2 is the reference two-input Poseidon (iden3, own constant tables).
func H2(a, b *big.Int) *big.Int {
	v, err := iden3.Hash([]*big.Int{a, b})
	if err != nil {
		panic(err)
	}
	return v
}

// H1 is the reference one-input Poseidon.
func H1(a *big.Int) *big.Int {
	v, err := iden3.Hash([]*big.Int{a})
	if err != nil {
		panic(err)
	}
	return v
}

// SelfCheck validates the reference hashes against published circomlib vectors.
func SelfCheck() error {
	want1 := Hex("18586133768512220936620570745912940619677854269274689475585506675881198879027")
	want2 := Hex("7853200120776062878684798364095072458815029376092732009249414926327459813530")
	if H1(B(1)).Cmp(want1) != 0 {
		return fmt.Errorf("reference poseidon([1]) mismatch")
	}
	if H2(B(1), B(2)).Cmp(want2) != 0 {
		return fmt.Errorf("reference poseidon([1,2]) mismatch")
	}
	return nil
}

func Mod(v *big.Int) *big.Int { return new(big.Int).Mod(v, R) }

func Pow2(k int) *big.Int { return new(big.Int).Lsh(big.NewInt(1), uint(k)) }

func Clone(v *big.Int) *big.Int { return new(big.Int).Set(v) }

func CloneSlice(v []*big.Int) []*big.Int {
	o := make([]*big.Int, len(v))
	for i := range v {
		o[i] = Clone(v[i])
	}
	return o
}

// MemoH2 returns a memoising wrapper around H2 (a pure function), so that
// from-scratch recomputations of a tree that shares most subtrees with the
// previous one stay cheap.
func MemoH2() func(a, b *big.Int) *big.Int {
	memo := map[string]*big.Int{}
	return func(a, b *big.Int) *big.Int {
		k := a.Text(62) + "," + b.Text(62)
		if v, ok := memo[k]; ok {
			return v
		}
		v := H2(a, b)
		memo[k] = v
		return v
	}
}
