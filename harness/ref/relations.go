package ref

import "math/big"

// InsWitness / DelWitness are witness-level batches: every value is a field
// element (already reduced mod the field the relation is evaluated in), so
// out-of-range start indices and wrap-around are expressible.
type InsWitness struct {
	Depth int          `json:"depth"`
	Batch int          `json:"batch"`
	Start *big.Int     `json:"start"`
	Pre   *big.Int     `json:"pre"`
	Post  *big.Int     `json:"post"`
	Ids   []*big.Int   `json:"ids"`
	Paths [][]*big.Int `json:"paths"`
	Hash  *big.Int     `json:"hash,omitempty"`
}

type DelWitness struct {
	Depth int          `json:"depth"`
	Batch int          `json:"batch"`
	Idx   []*big.Int   `json:"idx"`
	Pre   *big.Int     `json:"pre"`
	Post  *big.Int     `json:"post"`
	Ids   []*big.Int   `json:"ids"`
	Paths [][]*big.Int `json:"paths"`
	Hash  *big.Int     `json:"hash,omitempty"`
}

// RIns is the insertion relation of property C01 over the field of order p
// with two-to-one hash h. It returns "" when the relation holds, otherwise a
// short reason.
func RIns(p *big.Int, h func(a, b *big.Int) *big.Int, w *InsWitness) string {
	root := w.Pre
	lim := Pow2(w.Depth)
	for i := 0; i < w.Batch; i++ {
		idx := new(big.Int).Add(w.Start, big.NewInt(int64(i)))
		idx.Mod(idx, p)
		if idx.Cmp(lim) >= 0 {
			return "index-out-of-tree"
		}
		if Fold(h, big.NewInt(0), idx, w.Paths[i]).Cmp(root) != 0 {
			return "empty-leaf-path-mismatch"
		}
		root = Fold(h, w.Ids[i], idx, w.Paths[i])
	}
	if root.Cmp(w.Post) != 0 {
		return "post-root-mismatch"
	}
	return ""
}

// RDel is the deletion relation of property C02.
func RDel(p *big.Int, h func(a, b *big.Int) *big.Int, w *DelWitness) string {
	root := w.Pre
	lim := Pow2(w.Depth)
	lim2 := Pow2(w.Depth + 1)
	for i := 0; i < w.Batch; i++ {
		v := w.Idx[i]
		if v.Cmp(lim2) >= 0 {
			return "index-unprovable"
		}
		if v.Cmp(lim) >= 0 {
			continue // padding: nothing else inspected
		}
		if Fold(h, w.Ids[i], v, w.Paths[i]).Cmp(root) != 0 {
			return "leaf-path-mismatch"
		}
		root = Fold(h, big.NewInt(0), v, w.Paths[i])
	}
	if root.Cmp(w.Post) != 0 {
		return "post-root-mismatch"
	}
	return ""
}
