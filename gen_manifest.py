#!/usr/bin/env python3
"""Regenerate MANIFEST.json from plan.py (the plan is the single source of truth)."""
import json, os, sys
sys.path.insert(0, os.path.dirname(os.path.abspath(__file__)))
import plan

ALL = ["C%02d" % i for i in range(1, 21)]
checks = []
for pid in ALL:
    s = plan.PLAN.get(pid)
    if not s or s.get("unclaimed"):
        continue
    checks.append({
        "property_id": pid,
        "quick_cmd": f"./check {pid} quick",
        "thorough_cmd": f"./check {pid} thorough",
        "evidence_file": f"/verif/evidence/{pid}.json",
        "replay_cmd_template": f"./check replay {pid} {{path}}",
        "engine": s.get("engine", "rapid+go-test"),
        "level_claimed": {"category": s["level"], "text": s["level_text"], "design_ref": s.get("design_ref", "DESIGN.md §3 " + pid)},
        "level_note": s["level_note"],
        "technique": s["technique"],
    })
na = [{"property_id": pid, "reason": plan.NOT_APPLICABLE.get(pid, "check not built yet in this session; planned in DESIGN.md §3")}
      for pid in ALL if pid not in [c["property_id"] for c in checks]]
m = {
    "version": 1,
    "setup_cmd": "./check setup",
    "hooks": {
        "guard": "verif",
        "enable": "none needed: every observation point is reachable through exported API, HTTP, files or the built binary; go build -tags verif is accepted and changes nothing",
        "baseline_off_cmd": "cd /repo && go test -vet=off -count=1 -timeout 25m ./...",
        "source_commits": [],
        "add_only": True,
    },
    "engines": plan.ENGINES,
    "checks": checks,
    "notes": plan.NOTES,
    "not_applicable": na,
}
json.dump(m, open(os.path.join(os.path.dirname(os.path.abspath(__file__)), "MANIFEST.json"), "w"), indent=1)
print("wrote MANIFEST.json with", len(checks), "checks,", len(na), "not_applicable")
