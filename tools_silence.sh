#!/bin/bash
# Run every property's check at the given tier and seeds on the unchanged tree; report anything that is not exit 0.
# usage: tools_silence.sh <tier> <seed>...   (evidence goes to a scratch dir, not to /verif/evidence)
tier=${1:-quick}; shift
out=$(mktemp -d /tmp/silence-XXXX)
for seed in "$@"; do
  for i in $(seq -w 1 20); do
    p=C$i
    t0=$(date +%s)
    VERIF_SEED=$seed VERIF_EVIDENCE_DIR=$out/ev VERIF_REPLAY_DIR=$out/replay /verif/check $p $tier > $out/$p-$seed.out 2> $out/$p-$seed.err
    rc=$?
    echo "seed=$seed $p rc=$rc $(( $(date +%s) - t0 ))s $(tail -1 $out/$p-$seed.out)"
  done
done
echo "logs in $out"
