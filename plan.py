"""Per-property plan: which harness tests run in each tier, with which case counts.

A job is one test process: test (Go test name), checks (-rapid.checks), shards (processes with
distinct rapid seeds), n (integer knobs, read with EnvInt), env, timeout (s), race, cli.
"""

A_COMMON = [
    "the Go toolchain, gnark v0.8.0's solver/test engine and gnark-crypto are the deployed semantics",
    "reference oracles: golang.org/x/crypto/sha3, iden3 go-iden3-crypto/poseidon (self-checked against circomlib vectors), harness reference models in harness/ref",
]

PLAN = {}
NOT_APPLICABLE = {}
NOTES = ("All checks are property-based tests (pgregory.net/rapid v1.3.0), explicit small-scope enumerations or fault enumerations "
         "written as Go tests in /verif/harness and driven by /verif/check; every verdict is generated-input search against an explicit "
         "oracle. VERIF_SEED selects the rapid seed (0 is remapped). Exit 2 / a line INCONCLUSIVE means a timeout, worker death or a "
         "vacuous generator, never a violation.")
ENGINES = [
    {"name": "rapid+go-test", "path": "/verif/harness/props", "serves_properties": ["C%02d" % i for i in range(1, 21)],
     "kind_free_text": "property-based testing with rapid generators/state machines, exhaustive small-scope enumeration, fault enumeration; one Go test process per job"},
]

PLAN["C18"] = {
    "level": "exploration",
    "rule": ("rapid state-machine histories of Update(index,value) on poseidon_tree at depth 1..32 (weighted to 1,2,3,8,20,31,32; "
             "indices from first/last/previously-used/neighbour/far-apart/uniform; values 0, previous, r-1, small, random); after every "
             "step root, returned path, and both authentications are compared with an independent sparse tree recomputed from its leaves "
             "(dense recomputation for depth<=8); equal values are passed as one re-used big.Int object and must not be written through; every returned path is kept (the slice itself, beside a deep copy) and must be unchanged after every later update, as gen-test-params keeps them. Non-trivial = history that overwrites an index, writes 0 over a non-zero leaf, or touches "
             "two distinct leaves (hence both children of some internal node); distinct = SHA-1 of the canonical case."),
    "assumptions": A_COMMON,
    "technique": "model-based property testing (rapid state machine vs. independent sparse Merkle tree)",
    "level_text": ("Exploration: thousands of generated update histories per run at depths 1..32, each step compared with a from-scratch "
                   "recomputation by an independent reference tree; finds any divergence reachable by short histories, proves nothing beyond them."),
    "level_note": "trusts iden3 Poseidon (self-checked against circomlib vectors) as the hash; values restricted to [0,r) as every caller passes field elements",
    "quick": [{"test": "TestC18_History", "checks": 3000, "timeout": 600}],
    "thorough": [{"test": "TestC18_History", "checks": 6000, "shards": 16, "timeout": 1500}],
}

PLAN["C16"] = {
    "level": "exploration",
    "rule": ("rapid-generated parameter sets for both modes with every big integer drawn by byte length 0..40 (so <r, >=r, 2^256-1, "
             "leading-zero magnitudes occur) plus an edge set, uint32 indices incl. 0 and 2^32-1, batch/depth 0..6, ragged and empty arrays. "
             "Kinds: roundtrip (Unmarshal(Marshal(p)) == p field-wise, and the encoded text denotes the values in 0x-hex), doc (independently "
             "written documents in lower/upper/zero-padded 0x-hex must decode to the denoted integers; canonical decimal: if accepted, equal), "
             "malformed (one numeric string replaced by a non-number from a fixed pool, at a drawn position incl. nested arrays => error), "
             "badindex (-1, 2^32, 1.5, \"7\", ... => error), wrongtype (number/bool/array/object where a numeric string belongs => error). "
             "Non-trivial = a value >= 2^255 or shorter than 32 bytes, an empty or ragged array, or any doc/malformed/badindex/wrongtype case; "
             "distinct = SHA-1 of the canonical case. Thorough adds native go fuzzing of both decoders (no panic; decoded non-negative sets re-encode stably)."),
    "assumptions": A_COMMON + ["signs (+/-), underscores and 0b/0o prefixes in numeric strings are outside the statement and not asserted either way"],
    "technique": "round-trip and differential property testing against an independent document writer/reader; native fuzzing (thorough)",
    "level_text": ("Exploration: thousands of generated parameter sets and mutated documents per run; every decoder verdict is compared with an "
                   "independent reading of the same text. Exhaustive over the malformed-number pool x position classes only statistically."),
    "level_note": "trusts encoding/json and math/big; malformed pool is restricted to strings that denote no integer in any notation",
    "quick": [{"test": "TestC16_Codec", "checks": 20000, "timeout": 600}],
    "thorough": [{"test": "TestC16_Codec", "checks": 40000, "shards": 16, "timeout": 1500},
                 {"fuzz": "FuzzParamsJSON", "fuzztime": "60s", "timeout": 600}],
}

PLAN["C06"] = {
    "level": "exploration",
    "rule": ("(Enum, exhaustive) test-engine runs of ReducedModRCheck over all {0,1}^n (n=8,16, n>=bitlen p), of ToReducedBigEndian over all v in [0,p) "
             "at widths 8/16/24/32 with the correct and a bit-flipped output, and of FromBinaryBigEndian over all bit strings (n=8,16) with correct and "
             "off-by-one outputs, over the prime fields 3..65537; (Tiny, exhaustive) the compiled tinyfield (p=47) R1CS of ToReducedBigEndian(.,8) with every "
             "one of the 256 possible prover answers for every value plus non-boolean digits, and of ReducedModRCheck on raw boolean and non-boolean wires; "
             "(Positions, exhaustive over positions) BN254 n=256 compiled systems: for every bit position 0..255 a pattern agreeing with r above it and differing "
             "at it (below r when r has a 1 there, above otherwise) with several lower-bit fillings, the modulus itself and v+k*r for all fitting k, both as raw "
             "wires and as adversarial bit-decomposition answers; (Rapid) sampled widths 24, non-boolean digits, and adversarial strategies (v+k*r, flipped bit, "
             "non-boolean same-sum digits, bits of another value, zeros, ones) at n=256 and n=32. Oracle: big.Int arithmetic (accept iff all digits boolean and "
             "the denoted value < p and it fits n bits and the presented output is the big-endian arrangement of the value). Non-trivial = pattern >= p, pattern = p, "
             "a non-boolean digit, a value needing more than n bits, a wrong presented output, or a first-difference case; enumerated cases are distinct by construction, "
             "rapid cases are de-duplicated by SHA-1."),
    "assumptions": A_COMMON,
    "technique": "exhaustive small-scope enumeration + adversarial-hint property testing against big.Int arithmetic",
    "level_text": ("Exploration with exhaustive sub-spaces: complete enumeration over 19 small prime fields and byte-aligned widths <= 16 in the test engine, complete "
                   "enumeration of prover answers on the compiled 47-element-field system, all 256 first-difference positions on the compiled BN254 system; sampled elsewhere."),
    "level_note": "exhaustiveness holds for the finite sub-spaces named in the rule only; other widths/fields are sampled; gnark's test engine and solver are trusted",
    "quick": [{"test": "TestC06_Enum", "needs": ["g_bits"], "n": {"PRIMES16": 4, "PRIMESV": 17}, "rapid": False, "timeout": 600},
              {"test": "TestC06_Tiny", "needs": ["g_bits"], "rapid": False, "timeout": 300},
              {"test": "TestC06_Positions", "needs": ["g_bits"], "rapid": False, "timeout": 300},
              {"test": "TestC06_Rapid", "needs": ["g_bits"], "checks": 30000, "timeout": 600}],
    "thorough": [{"test": "TestC06_Enum", "needs": ["g_bits"], "n": {"PRIMES16": 19, "PRIMESV": 19}, "shards": 16, "rapid": False, "timeout": 1800},
                 {"test": "TestC06_Tiny", "needs": ["g_bits"], "rapid": False, "timeout": 300},
                 {"test": "TestC06_Positions", "needs": ["g_bits"], "rapid": False, "timeout": 300},
                 {"test": "TestC06_Rapid", "needs": ["g_bits"], "checks": 60000, "shards": 8, "timeout": 1800}],
}

PLAN["C05"] = {
    "level": "exploration",
    "rule": ("rapid-drawn field elements (0,1,2,r-1,r-2,(r-1)/2,2^k,2^k-1, small, by-byte-length, uniform) for Poseidon1, Poseidon2, an argument-swapped Poseidon2 and a "
             "7-call chain that feeds outputs forward and re-uses inputs, each run in the test engine (e1) and on the compiled BN254 R1CS with an independent "
             "constraint evaluator (e2); presented output = iden3 reference (must be accepted) or reference+delta at a drawn position (must be rejected). "
             "Non-trivial = anything but the repository's three literal vectors; distinct = SHA-1 of the canonical case."),
    "assumptions": A_COMMON,
    "technique": "differential property testing against iden3 Poseidon (reference constants), positive and negative outputs",
    "level_text": "Exploration: tens of thousands of generated inputs per run compared with an independent implementation; both acceptance of the reference output and rejection of perturbed outputs are checked.",
    "level_note": "iden3's Poseidon (self-checked against two published circomlib vectors at start-up) is the trusted definition of the reference hash",
    "quick": [{"test": "TestC05_Poseidon", "needs": ["g_poseidon"], "checks": 20000, "timeout": 600}],
    "thorough": [{"test": "TestC05_Poseidon", "needs": ["g_poseidon"], "checks": 50000, "shards": 16, "timeout": 1500}],
}

PLAN["C04"] = {
    "level": "exploration",
    "rule": ("(Lengths) enumeration of message lengths x both domain bytes in the test engine: quick = rate-boundary lengths {0,1,2,31..33,55,56,134..138,270..274,406..410,543..545}, "
             "the production lengths 68+32b and 64+4b for b=1..16, 100; thorough = EVERY length 0..552 (every residue mod 136 in 1..5 blocks) and 1000; per (length, domain) "
             "two deterministic contents (byte(i*7+salt) and one of zeros/ones/single-bit/last byte 0x80/0x01/0x06) with the x/crypto digest (must be accepted) and one negative "
             "(one flipped digest bit, the other domain's digest, or the digest of the message with one flipped bit; must be rejected). (Rapid) drawn lengths 0..600 (thorough 0..1200), "
             "boundary and production lengths, random and structured contents, all four output variants, run in the test engine and - for the lengths {0,1,72,132,135,136,137} "
             "(thorough adds 164,271,272,273,408) - on the compiled BN254 R1CS with an independent constraint evaluator. Bits LSB-first per byte on both sides. "
             "Non-trivial = any negative case, or a positive one with length > 1 other than the uniform 136-byte block; distinct = SHA-1 of the canonical case."),
    "assumptions": A_COMMON,
    "technique": "differential property testing against golang.org/x/crypto/sha3 (positive and negative digests), exhaustive over lengths in the thorough tier",
    "level_text": "Exploration; thorough tier is exhaustive over message lengths 0..552 for both domains (contents sampled). Compiled-system coverage at 7-12 lengths, other lengths in the test engine.",
    "level_note": "x/crypto's LegacyKeccak256 and New256 are the trusted standard functions; only byte-aligned messages are in the domain (the property's)",
    "quick": [{"test": "TestC04_Lengths", "needs": ["g_keccak"], "rapid": False, "shards": 4, "timeout": 900},
              {"test": "TestC04_Rapid", "needs": ["g_keccak"], "checks": 150, "shards": 4, "timeout": 900}],
    "thorough": [{"test": "TestC04_Lengths", "needs": ["g_keccak"], "rapid": False, "shards": 16, "timeout": 2400},
                 {"test": "TestC04_Rapid", "needs": ["g_keccak"], "checks": 500, "shards": 16, "timeout": 2400}],
}

PLAN["C01"] = {
    "level": "exploration",
    "rule": ("rapid: a state-machine history (insert-next, insert-random-empty, delete (holes), overwrite; 0-12 steps) on an independent sparse tree fixes the pre-state; then one batch "
             "drawn from VALID classes (next free index, run of holes, ending at the last leaf, random empty run; commitments 0,1,r-1,duplicate,random) or INVALID-by-mutation classes "
             "(occupied leaf with its genuine path, all paths from the pre-state, stale path from an earlier state, corrupted sibling, swapped/reused paths, post-root = pre / after b-1 / "
             "after b+1 / random, start+-1, start past the end, start aliased by 2^depth, start >= 2^32, start wrapping the field order, depth 32 with start 2^32-1, changed commitment, "
             "changed pre-root). The verdict is decided by the reference relation R-ins (not by the generation class). E1: depth uniform 1..32, batch 1..6 (thorough 1..16); the InsertionProof "
             "gadget and the full circuit in gnark's test engine must accept IFF R-ins (and start < 2^32). E2: the system returned by BuildR1CSInsertion at (1,1),(3,2),(2,3) "
             "(thorough + (32,2),(10,4),(31,1),(5,5)) solved with a drawn prover strategy for every bit-decomposition hint (honest, v+k*r, flipped bit, non-boolean same-sum digits, "
             "bits of another value, zeros, ones; optionally only for one chosen value/width): accept => R-ins; honest: accept <=> R-ins; differential E1 vs E2-honest. "
             "TinyE1 (exhaustive): every assignment (start, pre, id, sibling, post) of the InsertionProof gadget at depth 1/batch 1 over GF(5), GF(7) (thorough + GF(11), GF(13), and all 5^7 assignments "
             "at depth 1/batch 2 over GF(5)) in the test engine against R-ins over the generic tiny-field Poseidon. "
             "Non-trivial = every case except a valid batch at start 0 on the empty tree; distinct = SHA-1 of the canonical case."),
    "assumptions": A_COMMON + ["structural scan of the compiled system: every internal wire other than a hint output is defined on the O side of one constraint, so (inputs, hint outputs) is the whole freedom of a dishonest prover"],
    "technique": "model-based property testing (history state machine + reference relation) with adversarial hint functions on the compiled R1CS",
    "level_text": ("Exploration: generated histories/batches in all listed valid and invalid classes at every depth 1..32 (honest engine) and at 3-7 compiled dimensions with "
                   "dishonest-prover strategies; both directions of the iff are asserted for the honest prover, soundness for adversarial strategies."),
    "level_note": "dishonest-prover coverage only at the compiled dimensions; other dimensions honest engine only; gnark's compiler/solver trusted as deployed semantics",
    "quick": [{"test": "TestC01_E1", "checks": 120, "shards": 6, "timeout": 900},
              {"test": "TestC01_E2", "checks": 250, "shards": 4, "timeout": 900},
              {"test": "TestC01_TinyE1", "needs": ["g_merkle", "g_poseidon"], "rapid": False, "shards": 2, "timeout": 600}],
    "thorough": [{"test": "TestC01_E1", "checks": 1200, "shards": 12, "timeout": 3000},
                 {"test": "TestC01_E2", "checks": 1500, "shards": 8, "timeout": 3000},
                 {"test": "TestC01_TinyE1", "needs": ["g_merkle", "g_poseidon"], "rapid": False, "shards": 16, "timeout": 3000}],
}

PLAN["C02"] = {
    "level": "exploration",
    "rule": ("rapid: history state machine as C01 fixes a populated pre-state; each slot of the batch is drawn from: genuine deletion, already-empty leaf presenting 0, duplicate index "
             "(presenting the current value = valid, or the old value = invalid), dependent sibling with sequential or pre-state path, wrong presented value, stale/corrupted path, "
             "padding index in [2^d,2^(d+1)) (first, last, random) with garbage or genuine-looking contents, index >= 2^(d+1) (2^(d+1), +k, aliased, 2^32-1, 2^32, r-1), all-padding batches; "
             "post-root correct / = pre / random / +1. Verdict by the reference relation R-del. E1: depth 1..31, batch 1..6 (thorough ..12): DeletionProof gadget and full circuit accept IFF R-del. "
             "E2: BuildR1CSDeletion at (3,2),(1,1),(2,4) (thorough + (31,1),(10,3)) with drawn strategies for the bit-decomposition hints and for the is-zero inverse (honest, 0, 1, inverse+1, random): "
             "accept => R-del; honest: accept <=> R-del; E1/E2 differential. Exhaustive small scope: TinyE1 = every assignment (pre, idx, item, sibling, post) of the gadget at depth 1/batch 1 over "
             "GF(7) (thorough also GF(11), GF(13)) in the test engine - all index regimes real/padding/unprovable; TinyE2 = the gadget compiled over the 47-element field at depth 2 with EVERY prover answer "
             "(8 boolean + 2 non-boolean index decompositions x all 47 inverse values) on a grid of inputs; depth guard: BuildR1CSDeletion refuses depth 32,33,40,64 and accepts 31. "
             "Non-trivial = invalid case, or a valid one containing padding, a duplicate or a sibling pair; every tiny-field case; distinct by SHA-1 (rapid) or by construction (enumerations)."),
    "assumptions": A_COMMON + ["tiny-field reference hash = generic Poseidon over GF(p) with the repository's tables reduced mod p, validated against iden3 on BN254 at start-up; the relation is functional, so hash collisions in tiny fields do not blur it"],
    "technique": "model-based property testing with adversarial hints + exhaustive small-scope enumeration over tiny prime fields",
    "level_text": ("Exploration with exhaustive sub-spaces (all 7^5 gadget assignments at depth 1 in the test engine; all prover answers on the compiled 47-element-field system for a grid of inputs); "
                   "sampled histories/batches at all depths 1..31; dishonest-prover strategies at 3-5 compiled BN254 dimensions."),
    "level_note": "dishonest-prover coverage on BN254 only at the compiled dimensions; exhaustive claims hold for the named finite spaces only",
    "quick": [{"test": "TestC02_E1", "checks": 120, "shards": 5, "timeout": 900},
              {"test": "TestC02_E2", "checks": 250, "shards": 4, "timeout": 900},
              {"test": "TestC02_TinyE1", "needs": ["g_merkle", "g_poseidon"], "rapid": False, "shards": 2, "timeout": 600},
              {"test": "TestC02_TinyE2", "needs": ["g_merkle", "g_poseidon"], "rapid": False, "shards": 4, "timeout": 600},
              {"test": "TestC02_DepthGuard", "rapid": False, "timeout": 300}],
    "thorough": [{"test": "TestC02_E1", "checks": 1200, "shards": 10, "timeout": 3000},
                 {"test": "TestC02_E2", "checks": 1500, "shards": 6, "timeout": 3000},
                 {"test": "TestC02_TinyE1", "needs": ["g_merkle", "g_poseidon"], "rapid": False, "shards": 16, "timeout": 3000},
                 {"test": "TestC02_TinyE2", "needs": ["g_merkle", "g_poseidon"], "rapid": False, "shards": 16, "timeout": 3000},
                 {"test": "TestC02_DepthGuard", "rapid": False, "timeout": 300}],
}

PLAN["C03"] = {
    "level": "exploration",
    "rule": ("rapid: relation-valid insertion/deletion witnesses on generated histories, with commitments biased to encoding edges (0,1,r-1,2^k, short byte lengths) and - in a third of the insertion "
             "cases - the last commitment searched so that the post-root has a leading zero byte; deletion batches mix genuine, dependent, already-empty and padding slots (indices up to 2^32-1 at depth 31); "
             "batch sizes giving 1, 2 and 3 Keccak blocks. Presented public input: HONEST (Keccak of the reference packing mod r: must be accepted), PUBLIC+-1, OTHER-BATCH (hash of the packing with exactly one "
             "field changed), SWAP-WITNESS (hash of a different valid batch / of the same deletion slots in another order), and on the compiled systems FORGE256 (for a drawn packed 256-bit field v and k with "
             "v+k*r < 2^256: public input = Keccak of the packing containing v+k*r, while the prover's bit-decomposition hint answers bits(v+k*r) for exactly that value) and FORGE32 (non-boolean or other-value "
             "answers for a 32-bit field, public input = hash of the packing with the other value). Oracle: accept => public input == Keccak(reference packing of the witness values) mod r; honest and canonical => accept; "
             "compiled systems have exactly one public input. E1: test engine, depths 1..32, batches up to 20; E2: insertion (3,2),(2,3), deletion (3,2),(2,4) (thorough + (10,4),(32,1) / (10,3),(1,18),(31,1)). "
             "Non-trivial = any non-honest kind, or an honest case with a packed value shorter than 32 bytes or a multi-block hash input; distinct = SHA-1 of the canonical case."),
    "assumptions": A_COMMON,
    "technique": "metamorphic/differential property testing against the on-chain packing (x/crypto Keccak) with forged-decomposition hint strategies",
    "level_text": "Exploration: soundness of the hash binding is attacked with every alternative decomposition v+k*r that fits 256 bits at drawn fields, on the compiled systems; completeness on the honest path at all depths.",
    "level_note": "forgeries are attempted through the bit-decomposition hints (the only prover-chosen values besides inputs, by the structural scan); compiled dimensions only",
    "quick": [{"test": "TestC03_E1", "checks": 150, "shards": 4, "timeout": 900},
              {"test": "TestC03_E2", "checks": 250, "shards": 4, "timeout": 900}],
    "thorough": [{"test": "TestC03_E1", "checks": 1200, "shards": 8, "timeout": 3000},
                 {"test": "TestC03_E2", "checks": 1500, "shards": 8, "timeout": 3000}],
}

PLAN["C08"] = {
    "level": "exploration",
    "rule": ("(Helpers, rapid) parameter sets whose roots and commitments are drawn BY BYTE LENGTH first (0..32 bytes, then a value of that length below r) so values with leading zero bytes are ~97% of cases, "
             "indices over the full uint32 range with edge values, batch 0..8: ComputeInputHashInsertion/Deletion must equal Keccak-256 of the reference fixed-width packing (4-byte BE indices, 32-byte BE roots and "
             "commitments); a quarter of the cases are genuine valid batches (depth 1..32, histories as C01/C02) whose helper hash must also be accepted by the full circuit in the test engine. "
             "(CLI, rapid) gen-test-params run through the built binary for drawn (mode, depth 1..32 / 1..31, batch 1..12) inside its supported range (batch resp. 2*batch leaves must exist): stdout is one well-formed "
             "parameter document of the requested dimensions, its inputHash equals the reference packing hash of its own fields, and the circuit accepts it; (CLISweep, exhaustive) EVERY supported (mode, depth, batch 1..12) triple (~700) "
             "with the cheap part of that oracle (well-formed, right dimensions, hash = reference packing, batch satisfies the reference relation). "
             "Non-trivial = a root or commitment shorter than 32 bytes, an index >= 2^24, or any CLI triple; distinct = SHA-1 of the canonical case."),
    "assumptions": A_COMMON + ["gen-test-params is only exercised where it is defined: batch (insertion) / 2*batch (deletion) consecutive leaves must fit the tree (main.go writes them unconditionally)"],
    "technique": "differential property testing against the reference on-chain packing, with generators built to reach short (leading-zero) values; CLI sweep",
    "level_text": "Exploration: the helper is a pure function of its fields and is compared with an independent packing on thousands of length-biased inputs; end-to-end provability is checked on genuine batches and CLI output.",
    "level_note": "x/crypto Keccak and the harness packing are the trusted on-chain definition; values restricted to [0,r) as the property states",
    "quick": [{"test": "TestC08_Helpers", "checks": 250, "shards": 4, "timeout": 900},
              {"test": "TestC08_CLI", "checks": 15, "shards": 4, "cli": True, "timeout": 900},
              {"test": "TestC08_CLISweep", "rapid": False, "shards": 4, "cli": True, "timeout": 900}],
    "thorough": [{"test": "TestC08_Helpers", "checks": 3000, "shards": 10, "timeout": 3000},
                 {"test": "TestC08_CLI", "checks": 120, "shards": 6, "cli": True, "timeout": 3000},
                 {"test": "TestC08_CLISweep", "rapid": False, "shards": 8, "cli": True, "timeout": 3000}],
}

PLAN["C10"] = {
    "level": "exploration",
    "rule": ("(Synthetic, rapid, no proving) proofs assembled from generated group elements: Ar/Krs in G1 from points with very small x (x=1,2,3.. with x^3+3 a square, either sign of y), scalar multiples searched "
             "until a coordinate is shorter than 32 bytes, or uniform scalar multiples; Bs = scalar multiples of the G2 generator, half of them searched for a short coordinate. (Real, rapid) proofs produced by "
             "ProveInsertion/ProveDeletion at (3,2) for generated valid batches (about 15% have a short coordinate), carried with the raw verifying key and public input. Oracle: (1) json.Marshal(&Proof) read by the "
             "harness's own parser lists exactly A.x,A.y,B.x1,B.x0,B.y1,B.y0,C.x,C.y as 0x-hex integers equal to the struct's field elements (read by reflection); (2) json.Unmarshal of that text succeeds and yields "
             "field-wise equal points; (3) for real proofs the decoded proof still verifies (groth16.Verify with a public witness built by the harness); (4) harness-written JSON zero-padded to 64 digits decodes to the same proof. "
             "Non-trivial = at least one coordinate shorter than 32 bytes (all 8 positions are required to occur in the synthetic run); distinct = SHA-1 of the coordinates."),
    "assumptions": A_COMMON + ["gnark's WriteRawTo/ReadFrom and field types are trusted as the ground truth for the proof's points"],
    "technique": "round-trip and differential property testing with a generator built to reach short coordinates; independent codec via reflection",
    "level_text": "Exploration: thousands of synthetic proofs with short coordinates in every position per run, plus real proofs; both encoder order/values and decoder losslessness are checked against an independent codec.",
    "level_note": "the EVM order is taken from the property statement; verification of real proofs uses gnark's verifier",
    "quick": [{"test": "TestC10_Synthetic", "checks": 3000, "timeout": 600},
              {"test": "TestC10_Real", "checks": 30, "shards": 2, "timeout": 900}],
    "thorough": [{"test": "TestC10_Synthetic", "checks": 20000, "shards": 8, "timeout": 1800},
                 {"test": "TestC10_Real", "checks": 120, "shards": 8, "timeout": 3000}],
}

PLAN["C07"] = {
    "level": "exploration",
    "rule": ("rapid, on real Groth16 systems set up in-process (quick: insertion and deletion at depth 3/batch 2; thorough: + (2,3),(4,1) in both modes, (2,4) insertion, (1,4) deletion): parameter sets that are VALID (generated histories/batches as C01/C02, "
             "input hash = reference packing hash, reduced or as the raw 256-bit Keccak value), INVALID by one batch mutation (every class of C01/C02 expressible with uint32 indices; plus the single-check FOCUS classes built deliberately: a write onto an occupied leaf with that write's post-root, a start index or deletion index with a multiple of 2^depth / 2^(depth+1) added and the hash recomputed, a deletion presenting the wrong item on the genuine path — TestC07_Invalid draws hundreds of refusals, which cost a failed solve rather than a proof), VALID with a reduced hash that has a leading zero byte (searched for among drawn batches), carrying a WRONG HASH, or of the WRONG SHAPE "
             "(batch+-1, depth+-1, ragged, empty, short index/commitment lists, and ONE array longer or shorter than the others — 1-3 extra Merkle proofs (full, copied, empty, nil or over-long rows), an extra commitment or index — so that the valid batch is a prefix of the set; TestC07_Shapes draws hundreds of these per mode, they are refused before any proving work). Validity is decided by the reference relation + packing. Oracle: valid => Prove* returns (proof, nil) and, for every candidate public input "
             "h, h+r, h+2r (accept) and h+-1, h xor one bit, hash of a perturbed batch, 0, random (reject), both Verify* of the same system and gnark's groth16.Verify on a harness-built public witness agree with 'candidate == h mod r'; "
             "the proving system of the other mode with the same dimensions rejects the proof through either Verify entry point; invalid or mis-shaped => (nil proof, error), never a panic. "
             "Every case is non-trivial (each contains rejecting candidates, a cross-mode attempt or an invalid/mis-shaped set); distinct = SHA-1 of the canonical case."),
    "assumptions": A_COMMON + ["Groth16 soundness itself (a proof for h does not verify for h' != h) is relied upon, not tested: the check targets how the code wires hashes, keys and errors"],
    "technique": "model-based property testing against the reference relation with real Groth16 setup/prove/verify and an independent verification path",
    "level_text": "Exploration on 2-8 real proving systems with dozens to hundreds of generated parameter sets each; acceptance is cross-checked with a verification path that does not use the code under test's witness construction.",
    "level_note": "independent setups per run (toxic waste discarded); blinding factors are random and not controlled by VERIF_SEED",
    "quick": [{"test": "TestC07_Insertion", "checks": 45, "timeout": 900},
              {"test": "TestC07_Deletion", "checks": 45, "timeout": 900},
              {"test": "TestC07_Shapes", "checks": 150, "shards": 2, "timeout": 900},
              {"test": "TestC07_Invalid", "checks": 120, "shards": 2, "timeout": 900}],
    "thorough": [{"test": "TestC07_Insertion", "checks": 150, "shards": 8, "timeout": 3000},
                 {"test": "TestC07_Deletion", "checks": 150, "shards": 8, "timeout": 3000},
                 {"test": "TestC07_Shapes", "checks": 600, "shards": 8, "timeout": 3000},
                 {"test": "TestC07_Invalid", "checks": 400, "shards": 8, "timeout": 3000}],
}

PLAN["C11"] = {
    "level": "exploration",
    "rule": ("(Small, rapid) many independent proving systems: ProvingSystem values whose constraint system is a generated tiny circuit (1-40 multiplications, 0-3 bit-decomposition hints, 1-3 public inputs; fresh Groth16 setup each) and "
             "whose TreeDepth (1..32) and BatchSize (1..4096, incl. 258, 513 and values above 2^depth) always differ, pushed through a drawn sequence of 1-4 operations from {write compressed + read, write raw + read, "
             "the same through ReadSystemFromFile on a temp file}. (Real, rapid) real systems (quick: deletion depth 2/batch 3; thorough: + insertion (3,2), (4,1), deletion (1,4)) through file-raw, compressed+raw, and in thorough the CLI "
             "convert-to-raw, followed by cross prove/verify of generated valid batches through ProveX/VerifyX in both directions. (CLIChain, rapid; CLIChainReal on real 2x3/3x2 systems) the built binary's convert-to-raw run 1-4 times in a row on files, "
             "starting from a compressed or a raw file, with the output a fresh path, an existing longer file, or the INPUT ITSELF (same path, a respelled path, a symlink or a hard link to it): exit 0 => the output reloads to the original system, is byte-for-byte "
             "WriteRawTo of it, and (distinct output) the input still reloads; a non-zero exit is tolerated only for the aliased outputs and only if the input file still reloads to the original system. Oracle after every operation: same depth and batch, and gnark's raw serialisation of pk and vk and the serialised "
             "constraint system are byte-identical to the original's; reported byte counts equal the real ones; reloaded proves => original verifies and vice versa. Non-trivial = depth != batch with at least one conversion, or a real system; "
             "distinct = SHA-1 of (shape, operations)."),
    "assumptions": A_COMMON + ["gnark's WriteRawTo/WriteTo of keys and constraint systems are trusted as canonical forms for equality"],
    "technique": "round-trip property testing over many independent small proving systems and operation sequences, plus real systems with cross prove/verify",
    "level_text": "Exploration: hundreds of independent small systems per run with byte-distinct header values, all four read/write paths in sequences; real systems at depth != batch dimensions with interchangeability checked by actual proofs.",
    "level_note": "small systems exercise the same WriteTo/WriteRawTo/UnsafeReadFrom/ReadSystemFromFile code as real ones (the code is circuit-agnostic); real systems are fewer because files are tens of MB",
    "quick": [{"test": "TestC11_Small", "checks": 600, "shards": 2, "timeout": 900},
              {"test": "TestC11_Real", "checks": 4, "timeout": 900},
              {"test": "TestC11_CLIChain", "checks": 60, "cli": True, "timeout": 900},
              {"test": "TestC11_CLIChainReal", "rapid": False, "cli": True, "timeout": 900}],
    "thorough": [{"test": "TestC11_Small", "checks": 4000, "shards": 8, "timeout": 3000},
                 {"test": "TestC11_Real", "checks": 10, "shards": 4, "cli": True, "timeout": 3000},
                 {"test": "TestC11_CLIChain", "checks": 400, "shards": 4, "cli": True, "timeout": 3000},
                 {"test": "TestC11_CLIChainReal", "rapid": False, "shards": 2, "cli": True, "timeout": 3000}],
}

PLAN["C15"] = {
    "level": "fault_enumeration",
    "rule": ("fault = the file ends after k bytes. (SmallAllOffsets) for each rapid-drawn small proving system (as C11; files of 3-12 KB) and BOTH formats: EVERY cut offset 0..len-1 through UnsafeReadFrom on a bytes reader (exhaustive per file), "
             "and every ~150th offset plus the last through ReadSystemFromFile on a truncated temp file. (Real) real systems of tens of MB (quick: insertion (1,1) raw; thorough: + compressed and deletion (3,2)): all offsets 0..8, each section "
             "boundary +-{0,1,2,7,8,9,63,64,65}, 1/2/9 bytes short of complete, and rapid-drawn offsets inside the proving-key, verifying-key and constraint-system sections, through the reader, ReadSystemFromFile, cuts at multiples of the 4 MiB read buffer through the file path, and the CLI commands "
             "prove/verify/export-vk/convert-to-raw/start on a grid of cut points (with VALID parameters/proof on stdin, so that only the keys file can be at fault; a panic trace on stderr counts as a violation). Oracle: an error is returned (non-zero exit), no panic, the complete file loads (positive control per file), and no hang - a time limit alone is never a verdict: a read that is silent after 50x the time of a full read + 5 s is waited for three more minutes next to a control read of the complete file and reported as a hang only if the control came back promptly (else exit 2); 'start' is judged by a positive sign (the prover address accepts a connection) against the process exiting. "
             "Non-trivial = offset >= 8 (past the header); enumerated offsets are distinct by construction, drawn ones by SHA-1."),
    "assumptions": A_COMMON + ["only strict prefixes of valid files are in the domain; arbitrary corrupt bytes are not fed to the reader (gnark allocates from length prefixes)"],
    "technique": "fault enumeration over every truncation point of small files; structured and sampled truncation points of real files",
    "level_text": "Fault enumeration: exhaustive over all cut points for several small systems per run in both formats (tens of thousands of prefixes), structured + sampled cut points on real multi-MB files.",
    "level_note": "exhaustive only for the small systems; the reader code is the same for small and real systems, section sizes differ",
    "quick": [{"test": "TestC15_SmallAllOffsets", "checks": 2, "shards": 4, "timeout": 900},
              {"test": "TestC15_Real", "checks": 40, "cli": True, "timeout": 900}],
    "thorough": [{"test": "TestC15_SmallAllOffsets", "checks": 5, "shards": 10, "timeout": 3000},
                 {"test": "TestC15_Real", "checks": 150, "shards": 4, "cli": True, "timeout": 3000}],
}

PLAN["C09"] = {
    "level": "exploration",
    "rule": ("rapid: sequences of 1-14 requests followed by a canary valid request, sent to one in-process server per mode (real depth-3/batch-2 Groth16 system, free ports) that lives for the whole run. Request grammar: "
             "methods GET/PUT/DELETE/PATCH/HEAD/OPTIONS (=> 405); POST bodies that are not a document (empty, random bytes, wrong top-level JSON type, broken JSON), truncations of a valid document at a drawn offset, a valid document "
             "with a required hex field removed/renamed, a numeric string replaced by a non-number (pool of 19) at a drawn position incl. nested arrays, a wrong JSON type in a numeric position, an index of -1/2^32/1.5/\"3\"/true/[0], "
             "an array replaced by a scalar (all => 400 malformed_body); well-formed documents of wrong dimensions (batch+-1, depth+-1, ragged, empty, 300 elements) and near-valid batches (every invalid class of C01/C02, wrong input hash) "
             "(=> 400 proving_error); valid batches in four number styles and with 1-16 MB of leading whitespace (=> 200 with a proof that the harness verifies against the request's input hash with gnark's verifier); GRAY documents "
             "(extra key, null array, a value + r, negative/octal/underscore literals, missing index field, 1-16 MB of zero digits) where either 400 code or a 200 with a verifying proof is accepted. Always: a complete HTTP response, "
             "no 5xx, answer within 180 s, error bodies are {code,message}. Every sequence is non-trivial (none equals the repository's literal bodies); distinct = SHA-1 of the canonical sequence. "
             "Thorough adds native go fuzzing of the POST body with the same oracle reduced to: complete response, status in {200,400}, 200 => verifying proof, documented error shape."),
    "assumptions": A_COMMON + ["the expected class of each generated request is fixed by construction; where the statement is silent the oracle is three-valued (gray) and only crash/hang/5xx/unverifiable-200 can fail"],
    "technique": "grammar-based stateful property testing of the HTTP handler against a three-valued document classifier and an independent proof verifier; native fuzzing (thorough)",
    "level_text": "Exploration: dozens to hundreds of request sequences per mode per run covering every grammar class (required classes are enforced as non-vacuous); 200 bodies are verified cryptographically, not just by status.",
    "level_note": "one server per mode per process; handler state leaking across requests would surface as a later failure in the same run (canary after every sequence)",
    "quick": [{"test": "TestC09_Insertion", "checks": 30, "timeout": 900},
              {"test": "TestC09_Deletion", "checks": 30, "timeout": 900}],
    "thorough": [{"test": "TestC09_Insertion", "checks": 120, "shards": 6, "timeout": 3000},
                 {"test": "TestC09_Deletion", "checks": 120, "shards": 6, "timeout": 3000},
                 {"fuzz": "FuzzProveBody", "fuzztime": "150s", "workers": 8, "timeout": 1200}],
}

PLAN["C20"] = {
    "level": "exploration",
    "rule": ("rapid state machine on a FRESH in-process server (fresh registry) per case, real depth-3/batch-2 system: 1-6 steps from {send one request, send a concurrent burst of 2-8 requests while a scraper polls /metrics continuously, "
             "scrape now, wait-for-idle}. Requests come from the C09 grammar (all methods; valid, unsatisfiable, malformed, mis-shaped, gray bodies; thorough adds non-standard methods, labelled 'unknown'). Model = the client's tally "
             "(lower-cased method, status code) -> number of completed responses. Oracle: at every wait-for-idle and at the end, /metrics is polled (<= 90 s, early exit; the counter is incremented after the response bytes are sent) until "
             "http_requests_total{endpoint_pattern=\"/prove\"} equals the tally for every label pair with no extra pairs and http_requests_in_flight reads 0; every scrape (including those during bursts) answers 200 on the metrics address - a slow scrape is not a verdict (client limit 150 s; during a burst a timed-out scrape is skipped); while the harness HOLDS requests in flight (half-uploaded bodies) a scrape that stays silent is asked again with minutes of patience and compared with a control scrape after the requests are released before 'unavailable' is reported; no counter ever decreases between scrapes; when >= 3 scrapes completed strictly inside the lifetime of a request that returned a proof, at least one of them read in-flight >= 1. "
             "A third of the sequences also contain a complete VALID document followed by trailing data ('}', ' x', a second document, ' null', ']'): the body is not one JSON text, hence malformed_body is required. "
             "(Linger) one case per run keeps five valid requests half-uploaded for 6/12/17/33/65 s (+0-3 s drawn; thorough also 125 and 305 s) while ordinary requests go through, completes them, and compares totals with what the clients received - a response counted but never delivered (a server-side write deadline that started with the headers) shows here; a server that cuts slow clients off is fine as long as it counts what it sent. "
             "Non-trivial = a history with a concurrent burst, or >= 2 distinct (method, code) pairs including a 200 and an error; distinct = SHA-1 of the canonical history."),
    "assumptions": A_COMMON + ["the in-flight >= 1 observation is only required when scrapes provably overlapped a proof (client-side timestamps with 50 ms margins), so scheduling noise cannot fail it"],
    "technique": "model-based stateful property testing (client-side tally vs. scraped Prometheus series), with concurrent bursts and polling to a fixed point",
    "level_text": "Exploration: dozens of generated request histories per mode per run, each on a fresh server; exact equality of per-label totals, in-flight return to zero, availability under load and monotonicity are asserted.",
    "level_note": "timing enters only through polling bounds (20 s / 5 s) far above measured latencies; a bound being hit without a completed comparison is reported as a violation only for availability",
    "quick": [{"test": "TestC20_Deletion", "checks": 30, "timeout": 900},
              {"test": "TestC20_Insertion", "checks": 20, "timeout": 900},
              {"test": "TestC20_Linger", "checks": 1, "timeout": 900}],
    "thorough": [{"test": "TestC20_Deletion", "checks": 100, "shards": 5, "timeout": 3000},
                 {"test": "TestC20_Insertion", "checks": 100, "shards": 5, "timeout": 3000},
                 {"test": "TestC20_Linger", "checks": 2, "shards": 2, "timeout": 3000}],
}

PLAN["C13"] = {
    "level": "exploration",
    "rule": ("rapid, harness built with the Go race detector, one in-process server per mode (real depth-3/batch-2 system): each case launches 3-8 (thorough 3-16) concurrent clients plus a crowd of 4-20 cheap requests (malformed, mis-shaped, unsatisfiable, other methods) with rapid-drawn start offsets (0-30 ms, a second wave "
             "100-600 ms later, the crowd spread over 0-400 ms); the first two clients send valid batches built from their own histories (distinct input hashes), half of them inside 1-4 MiB of leading whitespace (production batches are megabytes), "
             "the third an unsatisfiable batch, the rest are drawn from the C09 grammar or are /metrics scrapes; the run is repeated at GOMAXPROCS 16 and 3 (fewer Ps share per-P caches and interleave more). "
             "Oracle per response: the sequential C09 oracle for that client's own request; a 200 body must verify for that client's input hash and for no other client's hash in the case; and zero race-detector reports in the process "
             "(any report naming the repository's frames fails the run; the report and the case history are the replay artefact). Non-trivial = >= 2 valid responses with distinct hashes, >= 1 failing request and >= 3 requests whose lifetimes "
             "overlapped (measured from client timestamps); distinct = SHA-1 of the canonical case."),
    "assumptions": A_COMMON + ["interleavings are sampled by the Go scheduler under drawn offsets; the race detector reports conflicting accesses that actually executed without happens-before ordering, whether or not the bad interleaving manifested"],
    "technique": "concurrent property testing with randomised start offsets under the Go race detector; per-response sequential oracle + cross-request proof check",
    "level_text": "Exploration of sampled schedules: a handful (quick) to hundreds (thorough) of concurrent rounds with the race detector armed; isolation is checked cryptographically (a proof verifies only for its own request's hash).",
    "level_note": "schedules are not enumerated; race detection covers executed code paths only; a race report cannot be shrunk and is reported from the log",
    "quick": [{"test": "TestC13_Deletion", "checks": 4, "race": True, "timeout": 1500, "env": {"GORACE": "halt_on_error=0 exitcode=66"}},
              {"test": "TestC13_Deletion", "checks": 4, "race": True, "timeout": 1500, "env": {"GORACE": "halt_on_error=0 exitcode=66", "GOMAXPROCS": "3"}, "shard_base": 1}],
    "thorough": [{"test": "TestC13_Deletion", "checks": 10, "shards": 2, "race": True, "timeout": 3000, "env": {"GORACE": "halt_on_error=0 exitcode=66"}},
                 {"test": "TestC13_Deletion", "checks": 10, "shards": 2, "race": True, "timeout": 3000, "env": {"GORACE": "halt_on_error=0 exitcode=66", "GOMAXPROCS": "3"}, "shard_base": 2},
                 {"test": "TestC13_Insertion", "checks": 10, "shards": 2, "race": True, "timeout": 3000, "env": {"GORACE": "halt_on_error=0 exitcode=66"}},
                 {"test": "TestC13_Insertion", "checks": 10, "shards": 2, "race": True, "timeout": 3000, "env": {"GORACE": "halt_on_error=0 exitcode=66", "GOMAXPROCS": "2"}, "shard_base": 2}],
}

PLAN["C14"] = {
    "level": "exploration",
    "rule": ("(Cycles, rapid) 1-6 start/stop cycles per case on ONE fixed address pair, in-process, real depth-3/batch-2 system: Run -> k in 0..3 valid requests brought in flight (confirmed by polling http_requests_in_flight until it reads k) -> "
             "a drawn delay {none, yield, 1-500 us, 1-50 ms, mid-proof, after completion} -> RequestStop -> AwaitStop -> IMMEDIATELY net.Listen on both addresses -> next cycle on the same addresses. "
             "(Immediate) 20 000 (thorough 100 000 per GOMAXPROCS) cycles Run/RequestStop/AwaitStop/bind with the stop issued immediately, after a yield, or 1/20/100 us later - i.e. before or while the listeners come up - at GOMAXPROCS 2 and 16. "
             "(CLI) the built binary 'start' on a keys file, readiness = completed /metrics round trip + 300 ms, k in 0..2 requests in flight, SIGINT. Oracle: every request confirmed in flight before the stop gets a complete 200 response whose proof "
             "verifies; AwaitStop returns; both addresses bind immediately afterwards and refuse connections; the CLI exits with status 0 and frees both ports; deadlock = AwaitStop/exit not observed 90-120 s after the stop although all client requests "
             "completed and still blocked 10 s later. A crash of the process with the repository's frames in the trace (the unrecoverable bind panic) is reported as a violation with the step history written so far. "
             "Half of the rounds contain one or two clients with valid requests that walk away (close their connection) 2-800 ms after sending; no response is owed to them, every other client's response must still be its own, and a follow-up valid request after the round must be answered 200 with its own proof. "
             "(CLI, start-up) 'start' with the keys file behind a FIFO so that loading lasts as long as the harness likes; SIGINT 0.4 s and 1.5 s (thorough also 5 and 60 ms) after process start, then the keys are fed: the process must either end at once (no handler yet) or stop after loading - it must not start serving and stay (positive sign: prover address accepting connections and the process alive 30 s later). "
             "Non-trivial = a cycle with >= 1 request in flight at the stop, a stop issued before the listeners were up, or >= 2 cycles on one address pair; every immediate cycle counts (distinct by construction), rapid cases by SHA-1."),
    "assumptions": A_COMMON + ["timing is sampled: delays are drawn, the scheduler decides the rest; GOMAXPROCS 2 and 16 are both exercised", "for the in-flight clauses the CLI runs wait for readiness before SIGINT; a SIGINT during key loading is judged only by 'the stop must not be lost' (dying at once and stopping after the load are both accepted), because the statement does not say where the handler is installed"],
    "technique": "stateful property testing of start/stop histories with drawn delays and in-flight requests; high-volume immediate-stop cycles; CLI under SIGINT",
    "level_text": "Exploration of sampled timings: tens of thousands of immediate start/stop cycles per run (the window the pinned tree's defect needed is hit within the first hundred), dozens of cycles with proofs in flight, CLI runs with SIGINT.",
    "level_note": "schedules are sampled, not enumerated; a failure that kills the process cannot be shrunk and is reported from the trace and the logged history",
    "quick": [{"test": "TestC14_Cycles", "checks": 12, "timeout": 1200},
              {"test": "TestC14_Immediate", "rapid": False, "n": {"CYCLES": 20000}, "env": {"GOMAXPROCS": "2"}, "timeout": 900},
              {"test": "TestC14_Immediate", "rapid": False, "n": {"CYCLES": 20000}, "env": {"GOMAXPROCS": "16"}, "timeout": 900},
              {"test": "TestC14_CLI", "rapid": False, "n": {"CLIRUNS": 3}, "cli": True, "timeout": 1200}],
    "thorough": [{"test": "TestC14_Cycles", "checks": 40, "shards": 4, "timeout": 3000},
                 {"test": "TestC14_Immediate", "rapid": False, "n": {"CYCLES": 100000}, "env": {"GOMAXPROCS": "2"}, "timeout": 3000},
                 {"test": "TestC14_Immediate", "rapid": False, "n": {"CYCLES": 100000}, "env": {"GOMAXPROCS": "16"}, "timeout": 3000},
                 {"test": "TestC14_Immediate", "rapid": False, "n": {"CYCLES": 100000}, "env": {"GOMAXPROCS": "4"}, "timeout": 3000},
                 {"test": "TestC14_CLI", "rapid": False, "n": {"CLIRUNS": 20}, "cli": True, "timeout": 3000}],
}

PLAN["C17"] = {
    "level": "exploration",
    "rule": ("(Committed, exhaustive over the model) ExtractLean(30,4) from the current Go circuits is compared with the committed formal-verification/FormalVerification.lean: the whole text, and every top-level definition by name "
             "(missing, extra, differing: ~55 obligations); every identifier the hand-written Lean proofs refer to (SemaphoreMTB.<id> and 'open SemaphoreMTB renaming <id>' in Main.lean and FormalVerification/*.lean, ~30) must be defined "
             "by the fresh extraction; extraction at depth 32/33/40 must fail. (Sweep, rapid) drawn (depth 1..31, batch 1..16): two extractions in one process are identical, end with 'end SemaphoreMTB' and contain the two circuit "
             "definitions with the dimension-suffixed names; a quarter of the cases run 'extract-circuit' through the built binary in a fresh process with GOMAXPROCS in {1,2,3,16} (a third of those at (30,4)) and compare with the in-process text. "
             "(ModelSemantics, rapid) translation validation by generated inputs: an interpreter for the extracted Lean DSL (honest-prover semantics of ProvenZK's gates) runs the COMMITTED (30,4) model and freshly extracted "
             "models at (3,2),(2,3),(1,1),(5,1) on generated witnesses - valid batches, every invalid class of C01/C02, wrong public inputs, and alternative 256-bit decompositions v+k*r answered alike on both sides - and its verdict must equal "
             "that of the compiled R1CS of the same dimensions (BuildR1CSX). (ModelFocus, rapid) the same comparison on witnesses built to violate exactly ONE membership assertion with everything downstream consistent (a write onto an occupied leaf with that write's post-root; a deletion presenting the wrong item on the genuine path): the classes that separate 'asserted' from 'not asserted'. Every comparison is non-trivial; definitions/identifiers are distinct by name, sweep points and witnesses by SHA-1."),
    "assumptions": A_COMMON + ["the Lean proofs themselves are NOT rebuilt: the toolchain (lean4 nightly-2023-07-12), mathlib commit and ProvenZK pinned by the repository cannot be installed offline; the property as stated is about the model text and identifier closure"],
    "technique": "differential testing of extraction output against the committed artefact (per definition), identifier-closure check, metamorphic determinism sweep, and differential evaluation of the Lean model against the compiled circuit on generated witnesses",
    "level_text": "Exhaustive over the definitions of the extracted model at the proof dimensions and over the identifiers the proofs use; sampled sweep of other dimensions and process configurations for determinism.",
    "level_note": "decided on the extracted model text plus sampled semantic agreement between model and compiled circuit; does not re-check that the Lean theorems still hold; the interpreter resolves existentials as an honest prover would",
    "quick": [{"test": "TestC17_Committed", "rapid": False, "timeout": 600},
              {"test": "TestC17_Sweep", "checks": 16, "shards": 2, "cli": True, "timeout": 900},
              {"test": "TestC17_ModelSemantics", "checks": 25, "shards": 3, "timeout": 900},
              {"test": "TestC17_ModelFocus", "checks": 14, "timeout": 900}],
    "thorough": [{"test": "TestC17_Committed", "rapid": False, "timeout": 600},
                 {"test": "TestC17_Sweep", "checks": 60, "shards": 8, "cli": True, "timeout": 3000},
                 {"test": "TestC17_ModelSemantics", "checks": 150, "shards": 12, "timeout": 3000},
                 {"test": "TestC17_ModelFocus", "checks": 60, "shards": 4, "timeout": 3000}],
}

PLAN["C12"] = {
    "level": "exploration",
    "rule": ("(Paths, rapid) drawn (mode, depth from {1,2,3,4,8,16,20,30,max,uniform}, batch 1..8; a quarter of the triples large: depth {16,20,26,30,max} x batch {10,13,16}); the constraint system is built through BuildR1CSX, for two thirds of the triples also through the key-IMPORT path at the same dimensions (ImportXSetup compiles the circuit itself; it is given the key files of a cached 1x1 system, and an import that refuses foreign keys is tolerated), built again, built while three other compilations run concurrently in the same process, "
             "and exported by the built binary's 'r1cs' command in a fresh process with GOMAXPROCS in {1,2,3,16}, with GOMEMLIMIT / GOGC settings, and in-process under a soft memory limit; (SetupPaths) at small dimensions additionally through SetupX, ImportXSetup on key files written by the harness from that setup "
             "(followed by proving with the imported system and verifying with the original), and in thorough through the CLI 'setup' (constraint-system section = file tail). Oracle (metamorphic): the SHA-256 of ConstraintSystem.WriteTo is identical "
             "across every path, run and process for one triple, and different for different triples seen in the run; the system has exactly one public input besides the constant wire; imported systems keep their dimensions. "
             "(Guard) deletion depth 32/33/64 is refused by BuildR1CSDeletion, SetupDeletion, ImportDeletionSetup and by the CLI 'r1cs' and 'setup' (non-zero exit, no output content). "
             "A 'relatives' path builds, in the same process, the other mode at the same dimensions, the same mode at another batch size and at another depth (each must compile to a system different from this triple's) and then this triple again - state carried between builds under too small a key shows here. "
             "Non-trivial = a triple compared across >= 2 different paths or >= 2 builds; distinct = SHA-1 of (triple, paths)."),
    "assumptions": A_COMMON + ["'any scheduling' is sampled through GOMAXPROCS values, repetition and concurrent compilation only"],
    "technique": "metamorphic property testing: the compiled system's digest as a function of (mode, depth, batch) only, across construction paths, repetitions and fresh processes",
    "level_text": "Exploration: a few dozen (quick) to ~150 (thorough) triples, each compiled through 2-5 paths including fresh processes; the expensive setup/import paths at 2-6 small dimensions.",
    "level_note": "compilation is assumed independent of anything but the triple; scheduling is sampled, not enumerated",
    "quick": [{"test": "TestC12_Paths", "checks": 7, "shards": 4, "cli": True, "timeout": 1200},
              {"test": "TestC12_SetupPaths", "rapid": False, "shards": 2, "cli": True, "timeout": 1200},
              {"test": "TestC12_Guard", "rapid": False, "cli": True, "timeout": 600}],
    "thorough": [{"test": "TestC12_Paths", "checks": 14, "shards": 10, "cli": True, "timeout": 3000},
                 {"test": "TestC12_SetupPaths", "rapid": False, "shards": 6, "cli": True, "timeout": 3000},
                 {"test": "TestC12_Guard", "rapid": False, "cli": True, "timeout": 600}],
}

PLAN["C19"] = {
    "level": "exploration",
    "rule": ("the built binary, per (mode, dims) one process (quick: insertion and deletion at depth 3/batch 2; thorough + insertion (5,3) - whose generated post-root has a leading zero byte -, (4,3) both modes): 'setup' is run for the mode under test and "
             "for the other mode, the files are loaded by the harness, and rapid draws commands over the shared files: the documented pipeline gen-test-params | prove | verify; prove with harness-generated valid documents (four number styles) "
             "and with invalid/mis-shaped/malformed ones; verify with valid in-process proofs PRE-SELECTED TO HAVE A COORDINATE SHORTER THAN 32 BYTES, written by the harness (unpadded / zero-padded) or by the library encoder, with the hash or hash + r, "
             "under either valid --mode value; tampered proofs (one digit, swapped G2 pair); wrong hashes; keys of the other mode; --mode absent/garbage/wrong case/empty on prove and verify; missing, empty, truncated and directory keys paths on "
             "prove/verify/export-vk/convert-to-raw; convert-to-raw then prove with the converted and verify with the original file; malformed proofs on verify's stdin. Oracle: prove's stdout is exactly one JSON proof + newline that the harness reader "
             "parses and gnark verifies for the request's hash, exit 0 iff the parameters are valid; verify exits 0 exactly when groth16.Verify(vk of the file, hash, proof) holds in the harness; every listed failure cause exits non-zero with no proof on stdout; "
             "no command exits 0 after logging a fatal error. Every command is non-trivial except a pipeline at (3,2); distinct = SHA-1 of the canonical command."),
    "assumptions": A_COMMON + ["only prove's stdout is constrained (gnark prints 'ignoring uninitialized slice' on verify's stdout, outside the statement)", "verify --mode insertion on deletion keys with a valid deletion proof may exit 0: validity is a matter of keys, hash and proof"],
    "technique": "property testing of command sequences over shared files against an in-process oracle (independent proof codec + gnark verifier), with proofs selected for short coordinates",
    "level_text": "Exploration: dozens of generated CLI invocations per mode per run, with exit status checked against an independent computation of proof validity; short-coordinate proofs are constructed rather than waited for.",
    "level_note": "each invocation costs about a second (keys are tens of MB), so counts are modest; keys come from the CLI's own setup, independent per run",
    "quick": [{"test": "TestC19_Commands", "checks": 22, "shards": 2, "cli": True, "timeout": 1800}],
    "thorough": [{"test": "TestC19_Commands", "checks": 60, "shards": 10, "cli": True, "timeout": 3600}],
}
